''' Hypothesis strategies for RFC 9174 messages (compact JSON form).

Segment data is described by ('dlen', 'dseed') and expanded with
tcpcl_machine.content() so that cases stay small; expand() yields the
vlib.ref9174 message dict.
'''
from hypothesis import strategies as st

from . import ref9174


def content(length, seed):
    import hashlib
    out = bytearray()
    counter = 0
    while len(out) < length:
        out += hashlib.sha256(b'%d:%d' % (seed, counter)).digest()
        counter += 1
    return bytes(out[:length])


def expand(msg):
    ''' Compact case form -> ref9174 message. '''
    msg = dict(msg)
    if msg['t'] == 'XFER_SEGMENT' and 'data' not in msg:
        msg['data'] = content(msg.pop('dlen'), msg.pop('dseed', 0)).hex()
    return msg


def ext_items(max_items=3, critical=False):
    item = st.fixed_dictionaries({
        'flags': st.sampled_from([0, 0, 1] if critical else [0]),
        'type': st.sampled_from([0x0002, 0x00fe, 0x1234, 0xfffe]),
        'value': st.binary(max_size=12).map(bytes.hex),
    })
    # (also lists around and beyond one hundred items - a list length at which dissectors built on scapy change behaviour)
    tiny = st.fixed_dictionaries({'flags': st.just(0), 'type': st.sampled_from([0x00fe, 0x1234]),
                                  'value': st.sampled_from(['', 'aa'])})
    many = st.integers(99, 130).flatmap(lambda n: st.lists(tiny, min_size=n, max_size=n))
    short = st.lists(item, max_size=max_items)
    return st.one_of(short, short, short, short, short, many)


def u64():
    return st.one_of(st.sampled_from([0, 1, 255, 256, 65535, 65536, 2 ** 32 - 1, 2 ** 32, 2 ** 63, 2 ** 64 - 1]),
                     st.integers(0, 2 ** 64 - 1))


def node_ids():
    # (a NUL character is legal UTF-8 text on the wire, but cannot be part of a D-Bus string)
    return st.one_of(st.sampled_from(['', 'dtn://peer/', 'ipn:5.0', 'dtn://' + 'x' * 290 + '/', 'dtn://peer/\x00', '\x00dtn://p/']),
                     st.text('abcdefghijklmnopqrstuvwxyz0123456789:/.-_é中', max_size=40))


@st.composite
def sess_inits(draw):
    return {'t': 'SESS_INIT', 'keepalive': draw(st.sampled_from([0, 0, 1, 30, 65535])),
            'segment_mru': draw(st.sampled_from([1, 64, 10 * 1024 * 1024, 2 ** 64 - 1])),
            'transfer_mru': draw(u64()), 'nodeid': draw(node_ids()), 'ext': draw(ext_items())}


def seg_data_len():
    return st.one_of(st.sampled_from([0, 1, 2, 255, 256]), st.integers(0, 600),
                     st.sampled_from([10239, 10240, 10241, 30000]))


@st.composite
def transfers(draw, tid, small=False):
    ''' A well-formed transfer: START .. END with the Transfer Length item. '''
    nseg = draw(st.integers(1, 4))
    lens = [draw(st.integers(0, 6)) if small else draw(seg_data_len()) for _ in range(nseg)]
    total = sum(lens)
    msgs = []
    for idx, dlen in enumerate(lens):
        flags = 0
        if idx == 0:
            flags |= ref9174.SEG_START
        if idx == nseg - 1:
            flags |= ref9174.SEG_END
        msg = {'t': 'XFER_SEGMENT', 'flags': flags, 'id': tid, 'dlen': dlen, 'dseed': draw(st.integers(0, 999))}
        if idx == 0:
            ext = [ref9174.transfer_length_ext(total)] if draw(st.integers(0, 4)) else []
            msg['ext'] = ext + draw(ext_items(2))
        msgs.append(msg)
    return msgs


def fillers():
    return st.one_of(
        st.just({'t': 'KEEPALIVE'}),
        st.fixed_dictionaries({'t': st.just('MSG_REJECT'), 'rej_msg_id': st.integers(0, 255),
                               'reason': st.sampled_from([1, 2, 3])}),
    )


def acks_for(tid):
    return st.fixed_dictionaries({'t': st.just('XFER_ACK'), 'flags': st.sampled_from([0, 2]), 'id': st.just(tid),
                                  'length': u64()})


@st.composite
def session_streams(draw, max_items=6, small=False, with_ack_for=None, with_term=True):
    ''' Messages a conforming peer may send after SESS_INIT. '''
    msgs = []
    tid = draw(st.sampled_from([0, 1, 7, 2 ** 32, 2 ** 64 - 2]))
    for _ in range(draw(st.integers(1, max_items))):
        kind = draw(st.sampled_from(['xfer', 'xfer', 'fill', 'fill', 'ack']))
        if kind == 'xfer':
            msgs += draw(transfers(tid, small))
            tid = (tid + 1) % 2 ** 64
            if draw(st.booleans()):
                # fillers may appear between the segments of later transfers too
                msgs.append(draw(fillers()))
        elif kind == 'fill':
            msgs.append(draw(fillers()))
        elif kind == 'ack' and with_ack_for is not None:
            msgs.append(draw(acks_for(with_ack_for)))
    if with_term and draw(st.booleans()):
        msgs.append({'t': 'SESS_TERM', 'flags': 0, 'reason': draw(st.sampled_from([0, 1, 2, 3, 4, 5]))})
    return msgs


@st.composite
def any_message(draw):
    ''' One message of any type with arbitrary field values (codec differential). '''
    kind = draw(st.sampled_from(['SESS_INIT', 'SESS_TERM', 'XFER_SEGMENT', 'XFER_ACK', 'XFER_REFUSE', 'KEEPALIVE',
                                 'MSG_REJECT']))
    if kind == 'SESS_INIT':
        return draw(sess_inits())
    if kind == 'SESS_TERM':
        return {'t': kind, 'flags': draw(st.sampled_from([0, 1])), 'reason': draw(st.integers(0, 255))}
    if kind == 'XFER_SEGMENT':
        flags = draw(st.sampled_from([0, 1, 2, 3]))
        msg = {'t': kind, 'flags': flags, 'id': draw(u64()), 'dlen': draw(seg_data_len()), 'dseed': draw(st.integers(0, 99))}
        if flags & ref9174.SEG_START:
            msg['ext'] = draw(ext_items(3, critical=True))
            if draw(st.booleans()):
                msg['ext'].insert(0, ref9174.transfer_length_ext(draw(u64())))
        return msg
    if kind == 'XFER_ACK':
        return {'t': kind, 'flags': draw(st.sampled_from([0, 1, 2, 3])), 'id': draw(u64()), 'length': draw(u64())}
    if kind == 'XFER_REFUSE':
        return {'t': kind, 'reason': draw(st.integers(0, 255)), 'id': draw(u64())}
    if kind == 'MSG_REJECT':
        return {'t': kind, 'rej_msg_id': draw(st.integers(0, 255)), 'reason': draw(st.integers(0, 255))}
    return {'t': 'KEEPALIVE'}
