''' Generic engine shared by all checks (DESIGN.md section 2.6/2.7).

A check is a module exposing

    PROPERTY   = 'Cxx'
    RULE       = 'how cases are generated and what counts as non-trivial'
    ASSUMPTIONS = [...]
    def budgets(tier)            -> dict(examples=N per shard, shards=K, ...)
    def strategy(tier)           -> Hypothesis strategy producing *plain JSON* cases
    def enumerate_cases(tier)    -> iterable of plain JSON cases (optional, exhaustive part)
    def pinned_cases()           -> iterable of (name, case) regression cases (optional)
    def execute(case)            -> Outcome

``execute`` is a pure function of the case and of the repository source tree,
so a replay file is just the JSON case.  Violations are *collected* (bucketed
by root cause) instead of raised, so that one run reports every root cause;
each new bucket is then minimised by a structural delta-debugger and written
as a replay file.
'''
import copy
import hashlib
import json
import multiprocessing
import os
import sys
import time
import traceback

VERIF = os.path.dirname(os.path.dirname(os.path.abspath(__file__)))
# mutant/sensitivity runs redirect their outputs so that committed evidence is never overwritten
OUT_DIR = os.environ.get('VERIF_OUT_DIR') or VERIF


class Violation(object):
    def __init__(self, bucket, summary, detail=None):
        self.bucket = str(bucket)
        self.summary = str(summary)
        self.detail = detail

    def as_dict(self):
        return dict(bucket=self.bucket, summary=self.summary, detail=self.detail)


class Outcome(object):
    def __init__(self):
        self.violations = []
        self.labels = []
        self.nontrivial = False
        self.excluded = []   # names of known-finding classes avoided by construction
        self.info = {}
        self.counters = {}   # name -> int, summed over all cases into evidence coverage.counters

    def fail(self, bucket, summary, detail=None):
        self.violations.append(Violation(bucket, summary, detail))

    def label(self, *names):
        self.labels.extend(names)

    def count(self, name, amount=1):
        self.counters[name] = self.counters.get(name, 0) + amount


class HarnessError(RuntimeError):
    ''' Problem in the verification machinery itself: exit code 2. '''


def canon(case):
    return json.dumps(case, sort_keys=True, separators=(',', ':'), default=str)


def case_hash(case):
    return hashlib.sha1(canon(case).encode('utf8')).hexdigest()


def abbreviate(obj, limit=96):
    ''' Shorten long hex strings / lists so samples stay readable. '''
    if isinstance(obj, str) and len(obj) > limit:
        return obj[:limit // 2] + '...(%d chars)...' % len(obj) + obj[-16:]
    if isinstance(obj, list):
        if len(obj) > 40:
            return [abbreviate(x, limit) for x in obj[:30]] + ['...(%d items)' % len(obj)]
        return [abbreviate(x, limit) for x in obj]
    if isinstance(obj, dict):
        return {k: abbreviate(v, limit) for k, v in obj.items()}
    return obj


class Stats(object):
    def __init__(self):
        self.evaluations = 0
        self.nontrivial_hashes = set()
        self.labels = {}
        self.excluded = {}
        self.samples = []
        self.buckets = {}    # bucket -> dict(summary, case, count, detail)
        self.errors = []
        self.notes = []
        self.counters = {}

    def record(self, case, outcome):
        self.evaluations += 1
        for key, val in outcome.counters.items():
            self.counters[key] = self.counters.get(key, 0) + val
        for lab in set(outcome.labels):
            self.labels[lab] = self.labels.get(lab, 0) + 1
        for exc in outcome.excluded:
            self.excluded[exc] = self.excluded.get(exc, 0) + 1
        if outcome.nontrivial:
            hsh = case_hash(case)
            if hsh not in self.nontrivial_hashes:
                self.nontrivial_hashes.add(hsh)
                if len(self.samples) < 6:
                    self.samples.append(abbreviate(copy.deepcopy(case)))
        for vio in outcome.violations:
            ent = self.buckets.get(vio.bucket)
            if ent is None:
                self.buckets[vio.bucket] = dict(summary=vio.summary, case=copy.deepcopy(case),
                                                count=1, detail=vio.detail)
            else:
                ent['count'] += 1
                # keep the smallest reproducing case seen so far
                if len(canon(case)) < len(canon(ent['case'])):
                    ent['case'] = copy.deepcopy(case)
                    ent['summary'] = vio.summary
                    ent['detail'] = vio.detail

    def merge(self, other):
        self.evaluations += other['evaluations']
        self.nontrivial_hashes |= set(other['nontrivial_hashes'])
        for key, val in other['labels'].items():
            self.labels[key] = self.labels.get(key, 0) + val
        for key, val in other['excluded'].items():
            self.excluded[key] = self.excluded.get(key, 0) + val
        for key, val in other.get('counters', {}).items():
            if key == 'slowest_case_s':
                self.counters[key] = max(self.counters.get(key, 0), val)
            else:
                self.counters[key] = self.counters.get(key, 0) + val
        for smp in other['samples']:
            if len(self.samples) < 8:
                self.samples.append(smp)
        for bucket, ent in other['buckets'].items():
            mine = self.buckets.get(bucket)
            if mine is None:
                self.buckets[bucket] = ent
            else:
                mine['count'] += ent['count']
                if len(canon(ent['case'])) < len(canon(mine['case'])):
                    mine['case'] = ent['case']
                    mine['summary'] = ent['summary']
                    mine['detail'] = ent['detail']
        self.errors.extend(other['errors'])
        self.notes.extend(other['notes'])

    def export(self):
        return dict(evaluations=self.evaluations, nontrivial_hashes=sorted(self.nontrivial_hashes),
                    labels=self.labels, excluded=self.excluded, samples=self.samples,
                    buckets=self.buckets, errors=self.errors, notes=self.notes, counters=self.counters)


class CaseTimeout(BaseException):
    ''' Raised by the per-case watchdog (BaseException: repo code catching Exception cannot swallow it). '''


CASE_TIMEOUT_S = int(os.environ.get('VERIF_CASE_TIMEOUT', '120'))


def _alarm(_signum, _frame):
    raise CaseTimeout()


def _guard_resources():
    ''' A runaway case must not take the machine down: cap the address space of this process. '''
    import resource
    import signal
    try:
        limit = 6 * 1024 ** 3
        soft, hard = resource.getrlimit(resource.RLIMIT_AS)
        if soft == resource.RLIM_INFINITY or soft > limit:
            resource.setrlimit(resource.RLIMIT_AS, (limit, hard))
    except (ValueError, OSError):
        pass
    signal.signal(signal.SIGALRM, _alarm)


_JOURNAL = {'cur': None, 'skip': set()}    # per shard process: file naming the case in execution, cases known to kill the process


def _safe_execute(check, case, stats):
    import signal
    if _JOURNAL['cur'] is not None:
        digest = hashlib.sha1(canon(case).encode()).hexdigest()
        if digest in _JOURNAL['skip']:
            # an earlier attempt of this shard died while executing this very case (abort inside a C library, kill by
            # the kernel): inconclusive, never a verdict
            stats.counters['cases_abandoned'] = stats.counters.get('cases_abandoned', 0) + 1
            stats.notes.append('inconclusive: case killed the worker process, skipped on restart: %s' % canon(case)[:300])
            return None
        with open(_JOURNAL['cur'], 'w') as outfile:
            outfile.write(digest)
    began = time.time()
    try:
        signal.alarm(CASE_TIMEOUT_S)
        try:
            outcome = check.execute(case)
        finally:
            signal.alarm(0)
            took = time.time() - began
            if took > stats.counters.get('slowest_case_s', 0):
                stats.counters['slowest_case_s'] = round(took, 1)
                if took > 5:
                    stats.notes.append('slow case (%.1f s): %s' % (took, canon(case)[:300]))
    except (CaseTimeout, MemoryError) as err:
        # a wall-clock or memory budget hit is inconclusive, never a verdict
        stats.counters['cases_abandoned'] = stats.counters.get('cases_abandoned', 0) + 1
        stats.notes.append('inconclusive: case abandoned (%s after %d s budget): %s'
                           % (type(err).__name__, CASE_TIMEOUT_S, canon(case)[:300]))
        return None
    except HarnessError:
        raise
    except Exception as err:   # an exception escaping execute() is a harness bug, not a verdict
        stats.errors.append('%s: %s\n%s' % (type(err).__name__, err, traceback.format_exc(limit=8)))
        if len(stats.errors) > 5:
            raise HarnessError('too many harness errors: ' + stats.errors[0])
        return None
    stats.record(case, outcome)
    return outcome


def run_hypothesis(check, tier, seed_value, max_examples, stats, deadline_s=None):
    import hypothesis
    from hypothesis import HealthCheck, Phase, given, settings
    started = time.time()
    state = dict(stop=False)

    @hypothesis.seed(seed_value)
    @settings(max_examples=max_examples, database=None, deadline=None,
              report_multiple_bugs=False, derandomize=False,
              phases=[Phase.generate],
              suppress_health_check=list(HealthCheck))
    @given(check.strategy(tier))
    def prop(case):
        if state['stop']:
            return
        if deadline_s is not None and time.time() - started > deadline_s:
            state['stop'] = True
            stats.notes.append('inconclusive: wall-clock budget %.0fs reached after %d cases'
                               % (deadline_s, stats.evaluations))
            return
        _safe_execute(check, case, stats)

    prop()


def _shard_worker(args, journal=None):
    (modname, tier, seed_value, max_examples, shard_index, enum_slice, deadline_s) = args
    import importlib
    if journal is not None:
        _JOURNAL['cur'] = journal + '.cur'
        try:
            _JOURNAL['skip'] = set(open(journal + '.skip').read().split())
        except OSError:
            _JOURNAL['skip'] = set()
    try:
        check = importlib.import_module(modname)
        stats = Stats()
        _guard_resources()
        if hasattr(check, 'prepare'):
            check.prepare()
        if enum_slice is not None and hasattr(check, 'enumerate_cases'):
            step, offset = enum_slice
            started = time.time()
            for idx, case in enumerate(check.enumerate_cases(tier)):
                if idx % step != offset:
                    continue
                if deadline_s is not None and time.time() - started > deadline_s:
                    stats.notes.append('inconclusive: enumeration stopped by wall-clock budget')
                    break
                _safe_execute(check, case, stats)
        if max_examples > 0:
            run_hypothesis(check, tier, seed_value, max_examples, stats, deadline_s)
        return ('ok', stats.export())
    except HarnessError as err:
        return ('harness', str(err))
    except Exception as err:
        return ('harness', '%s: %s\n%s' % (type(err).__name__, err, traceback.format_exc(limit=12)))


def _shard_child(conn, job, journal=None):
    try:
        result = _shard_worker(job, journal)
        if journal is not None:
            try:
                os.unlink(journal + '.cur')
            except OSError:
                pass
        conn.send(result)
    finally:
        conn.close()


def _run_shards(jobs, nproc, stats):
    ''' One process per shard, at most ``nproc`` at a time.  A shard process that dies without handing back a result
    (killed from outside, out of memory) is started again; a shard that dies three times is a harness error.  Nothing
    here can wait for ever on a dead worker (multiprocessing.Pool.map does). '''
    import multiprocessing.connection
    import shutil
    import tempfile
    ctx = multiprocessing.get_context('fork')
    results = {}
    scratch = tempfile.mkdtemp(prefix='verif-shards-')
    deaths_outside = dict((idx, 0) for idx in range(len(jobs)))
    attempts = dict((idx, 0) for idx in range(len(jobs)))
    todo = list(range(len(jobs)))
    running = {}     # connection -> (index, process)
    while todo or running:
        while todo and len(running) < nproc:
            idx = todo.pop(0)
            attempts[idx] += 1
            parent_conn, child_conn = ctx.Pipe(duplex=False)
            proc = ctx.Process(target=_shard_child, args=(child_conn, jobs[idx], os.path.join(scratch, 'shard-%d' % idx)))
            proc.start()
            child_conn.close()
            running[parent_conn] = (idx, proc)
        for conn in multiprocessing.connection.wait(list(running), timeout=5.0):
            idx, proc = running.pop(conn)
            try:
                results[idx] = conn.recv()
            except (EOFError, OSError):
                proc.join(10)
                journal = os.path.join(scratch, 'shard-%d' % idx)
                try:
                    lethal = open(journal + '.cur').read().strip()
                    os.unlink(journal + '.cur')
                except OSError:
                    lethal = ''
                if lethal:
                    # the case in execution when the process died is skipped (and counted) from now on
                    with open(journal + '.skip', 'a') as outfile:
                        outfile.write(lethal + '\n')
                else:
                    deaths_outside[idx] += 1
                if deaths_outside[idx] >= 3 or attempts[idx] >= 12:
                    shutil.rmtree(scratch, ignore_errors=True)
                    raise HarnessError('shard %d died %d times without a result (exit code %s)' % (idx, attempts[idx], proc.exitcode))
                stats.notes.append('shard %d died without a result (exit code %s)%s; started again'
                                   % (idx, proc.exitcode, ' while executing a case, which is skipped from now on' if lethal else ''))
                todo.append(idx)
            finally:
                conn.close()
            proc.join(30)
    shutil.rmtree(scratch, ignore_errors=True)
    return [results[idx] for idx in range(len(jobs))]


def explore(check, tier, seed_value):
    ''' Run pinned cases, the exhaustive enumeration and the random shards. '''
    budget = check.budgets(tier)
    shards = int(budget.get('shards', 1))
    examples = int(budget.get('examples', 0))
    deadline_s = budget.get('deadline_s')
    stats = Stats()
    jobs = []
    for idx in range(shards):
        jobs.append((check.__name__, tier, seed_value * 1000 + idx, examples, idx,
                     (shards, idx) if hasattr(check, 'enumerate_cases') else None, deadline_s))
    if shards == 1:
        results = [_shard_worker(jobs[0])]
    else:
        results = _run_shards(jobs, min(shards, os.cpu_count() or 1), stats)
    for status, payload in results:
        if status != 'ok':
            raise HarnessError(payload)
        stats.merge(payload)
    return stats


# --- structural delta debugging of a JSON case ---------------------------------

def _paths(obj, prefix=()):
    ''' Yield paths to every list, int and str inside a JSON value. '''
    if isinstance(obj, dict):
        for key in sorted(obj):
            for item in _paths(obj[key], prefix + (key,)):
                yield item
    elif isinstance(obj, list):
        yield (prefix, 'list')
        for idx, val in enumerate(obj):
            for item in _paths(val, prefix + (idx,)):
                yield item
    elif isinstance(obj, bool):
        return
    elif isinstance(obj, int):
        yield (prefix, 'int')
    elif isinstance(obj, str):
        yield (prefix, 'str')


def _get(obj, path):
    for key in path:
        obj = obj[key]
    return obj


def _set(obj, path, value):
    if not path:
        return value
    parent = _get(obj, path[:-1])
    parent[path[-1]] = value
    return obj


def minimise(check, case, bucket, max_runs=250, max_seconds=40):
    ''' Greedy structural shrinking that keeps the same root-cause bucket. '''
    started = time.time()
    runs = [0]

    def reproduces(cand):
        if runs[0] >= max_runs or time.time() - started > max_seconds:
            return False
        runs[0] += 1
        try:
            out = check.execute(copy.deepcopy(cand))
        except Exception:
            return False
        return any(v.bucket == bucket for v in out.violations)

    best = copy.deepcopy(case)
    improved = True
    keys = getattr(check, 'SHRINK_KEYS', None)
    kinds = getattr(check, 'SHRINK_KINDS', ('list', 'int', 'str'))
    while improved and runs[0] < max_runs and time.time() - started <= max_seconds:
        improved = False
        for path, kind in list(_paths(best)):
            if keys is not None and (not path or path[0] not in keys):
                continue   # only the parts of a case that stay inside the input domain when shrunk
            if kind not in kinds:
                continue
            try:
                cur = _get(best, path)
            except (KeyError, IndexError, TypeError):
                continue
            if kind == 'list' and isinstance(cur, list) and len(cur) > 0:
                chunk = max(1, len(cur) // 2)
                while chunk >= 1:
                    pos = 0
                    while pos < len(cur):
                        cand_list = cur[:pos] + cur[pos + chunk:]
                        cand = copy.deepcopy(best)
                        cand = _set(cand, path, copy.deepcopy(cand_list))
                        if reproduces(cand):
                            best = cand
                            cur = cand_list
                            improved = True
                        else:
                            pos += chunk
                    chunk //= 2
            elif kind == 'int' and isinstance(cur, int) and not isinstance(cur, bool) and cur not in (0, 1):
                for cand_val in (0, 1, cur // 2):
                    if cand_val == cur:
                        continue
                    cand = copy.deepcopy(best)
                    cand = _set(cand, path, cand_val)
                    if reproduces(cand):
                        best = cand
                        improved = True
                        break
            elif kind == 'str' and isinstance(cur, str) and len(cur) >= 4 and all(c in '0123456789abcdef' for c in cur) and len(cur) % 2 == 0:
                half = (len(cur) // 4) * 2
                for cand_val in (cur[:half], cur[half:]):
                    cand = copy.deepcopy(best)
                    cand = _set(cand, path, cand_val)
                    if reproduces(cand):
                        best = cand
                        improved = True
                        break
    return best, runs[0]


# --- findings / replay / evidence -----------------------------------------------

def load_findings(prop):
    path = os.path.join(VERIF, 'known_findings.json')
    if not os.path.exists(path):
        return []
    with open(path) as infile:
        data = json.load(infile)
    return [ent for ent in data.get('findings', []) if ent.get('property') == prop]


def write_replay(prop, bucket, entry, seed_value, tier):
    os.makedirs(os.path.join(OUT_DIR, 'replays'), exist_ok=True)
    name = '%s-%s.json' % (prop, hashlib.sha1(bucket.encode('utf8')).hexdigest()[:10])
    path = os.path.join(OUT_DIR, 'replays', name)
    with open(path, 'w') as outfile:
        json.dump(dict(property=prop, bucket=bucket, summary=entry['summary'], detail=entry.get('detail'),
                       case=entry['case'], seed=seed_value, tier=tier), outfile, indent=1, sort_keys=True, default=str)
    return path


def write_evidence(check, tier, seed_value, stats, wall_s, n_violations, known_lines, level='exploration', extra=None):
    os.makedirs(os.path.join(OUT_DIR, 'evidence'), exist_ok=True)
    coverage = dict(
        evaluations=stats.evaluations,
        distinct_nontrivial=len(stats.nontrivial_hashes),
        rule=check.RULE,
        samples=stats.samples if stats.samples else ['(no non-trivial case in this run)'],
        class_histogram=dict(sorted(stats.labels.items())),
        excluded_by_construction=stats.excluded,
        counters=dict(sorted(stats.counters.items())),
        known_findings_reproduced=known_lines,
        notes=stats.notes[:20],
        harness_errors=stats.errors[:3],
    )
    if getattr(check, 'EXHAUSTIVE_PART', None):
        coverage['exhaustive_part'] = check.EXHAUSTIVE_PART
    if extra:
        coverage.update(extra)
    doc = dict(property_id=check.PROPERTY, tier=tier, seed=seed_value, level=level, coverage=coverage,
               assumptions=list(getattr(check, 'ASSUMPTIONS', [])), wall_s=round(wall_s, 3),
               violations=n_violations)
    path = os.path.join(OUT_DIR, 'evidence', '%s.json' % check.PROPERTY)
    with open(path, 'w') as outfile:
        json.dump(doc, outfile, indent=1, sort_keys=True, default=str)
    return path


def main(modname, argv):
    import argparse
    import importlib
    parser = argparse.ArgumentParser()
    parser.add_argument('--tier', default=os.environ.get('VERIF_TIER', 'quick'), choices=['quick', 'thorough'])
    parser.add_argument('--replay', default=None)
    parser.add_argument('--seed', type=int, default=None)
    parser.add_argument('--no-minimise', action='store_true')
    args = parser.parse_args(argv)
    seed_value = args.seed if args.seed is not None else int(os.environ.get('VERIF_SEED', '1') or '1')
    started = time.time()
    try:
        check = importlib.import_module(modname)
        prop = check.PROPERTY
        _guard_resources()
        if hasattr(check, 'prepare'):
            check.prepare()
        findings = load_findings(prop)
        known_buckets = {ent['bucket']: ent for ent in findings if ent.get('status') == 'known'}

        if args.replay:
            with open(args.replay) as infile:
                doc = json.load(infile)
            outcome = check.execute(doc['case'])
            bad = [v for v in outcome.violations if v.bucket not in known_buckets]
            for vio in outcome.violations:
                print('replay: bucket=%s %s' % (vio.bucket, vio.summary))
            if os.environ.get('VERIF_REPLAY_VERBOSE'):
                print('replay: nontrivial=%s labels=%s counters=%s' % (outcome.nontrivial, sorted(outcome.labels), dict(outcome.counters)))
            if bad:
                print('VIOLATION property=%s replay=%s' % (prop, os.path.abspath(args.replay)))
                return 1
            print('replay: no unlisted violation reproduced')
            return 0

        stats = Stats()
        # pinned regression cases first (known findings and earlier failures)
        if hasattr(check, 'pinned_cases'):
            for _name, case in check.pinned_cases():
                _safe_execute(check, case, stats)
        # then the committed replay files of this property: minimised inputs of earlier failures (repaired defects,
        # corrected oracles), a seconds-long regression tier
        import glob
        for path in sorted(glob.glob(os.path.join(VERIF, 'replays', '%s-*.json' % prop))):
            try:
                with open(path) as infile:
                    case = json.load(infile)['case']
                outcome = check.execute(copy.deepcopy(case))
            except HarnessError:
                raise
            except Exception as err:    # a case written for an older form of the generator
                stats.notes.append('replay %s not executable any more (%s: %s)' % (os.path.basename(path), type(err).__name__, str(err)[:80]))
                continue
            stats.record(case, outcome)
            stats.counters['regression_replays'] = stats.counters.get('regression_replays', 0) + 1
        stats.merge(explore(check, args.tier, seed_value).export())
        if stats.errors:
            sys.stderr.write('harness errors (first): %s\n' % stats.errors[0])
            if stats.evaluations == 0 or len(stats.errors) * 20 > stats.evaluations:
                raise HarnessError(stats.errors[0])

        exit_code = 0
        known_lines = []
        new_count = 0
        for bucket in sorted(stats.buckets):
            entry = stats.buckets[bucket]
            if bucket in known_buckets:
                line = 'KNOWN-FINDING: property=%s %s [%s] (%d cases)' % (
                    prop, known_buckets[bucket].get('what', entry['summary']), bucket, entry['count'])
                print(line)
                known_lines.append(line)
                continue
            new_count += 1
            if not args.no_minimise:
                small, runs = minimise(check, entry['case'], bucket,
                                       max_runs=150 if args.tier == 'quick' else 600,
                                       max_seconds=30 if args.tier == 'quick' else 180)
                entry = dict(entry, case=small)
                out = check.execute(copy.deepcopy(small))
                for vio in out.violations:
                    if vio.bucket == bucket:
                        entry['summary'] = vio.summary
                        entry['detail'] = vio.detail
            path = write_replay(prop, bucket, entry, seed_value, args.tier)
            print('violation bucket=%s count=%d: %s' % (bucket, stats.buckets[bucket]['count'], entry['summary']))
            print('VIOLATION property=%s replay=%s' % (prop, path))
            exit_code = 1
        for bucket, ent in known_buckets.items():
            if bucket not in stats.buckets:
                print('note: listed finding %s did not reproduce in this run' % bucket)
        level = getattr(check, 'LEVEL', 'exploration')
        extra = check.evidence_extra(args.tier) if hasattr(check, 'evidence_extra') else None
        write_evidence(check, args.tier, seed_value, stats, time.time() - started, new_count, known_lines, level, extra)
        print('%s tier=%s seed=%d evaluations=%d distinct_nontrivial=%d buckets=%d wall=%.1fs'
              % (prop, args.tier, seed_value, stats.evaluations, len(stats.nontrivial_hashes),
                 len(stats.buckets), time.time() - started))
        if len(stats.nontrivial_hashes) < 2 and exit_code == 0:
            raise HarnessError('generator produced fewer than 2 non-trivial cases')
        return exit_code
    except HarnessError as err:
        sys.stderr.write('HARNESS-ERROR %s: %s\n' % (modname, err))
        return 2
    except Exception as err:
        sys.stderr.write('HARNESS-ERROR %s: %s: %s\n%s\n' % (modname, type(err).__name__, err, traceback.format_exc()))
        return 2
