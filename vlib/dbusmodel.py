''' Model of dbus-python's marshalling rules (message-append.c), documented
rules only (DESIGN.md section 2.3).  check(signature, values) raises
TypeError / ValueError / OverflowError exactly where dbus-python would refuse
to append the value, and returns None otherwise.
'''
import re

_INT_RANGES = {
    'y': (0, 2 ** 8 - 1),
    'n': (-2 ** 15, 2 ** 15 - 1),
    'q': (0, 2 ** 16 - 1),
    'i': (-2 ** 31, 2 ** 31 - 1),
    'u': (0, 2 ** 32 - 1),
    'x': (-2 ** 63, 2 ** 63 - 1),
    't': (0, 2 ** 64 - 1),
    'h': (0, 2 ** 31 - 1),
}
_OBJPATH = re.compile(r'^(/|(/[A-Za-z0-9_]+)+)$')


def split_signature(sig):
    ''' Split a signature into its complete types. '''
    out = []
    pos = 0
    while pos < len(sig):
        end = _one(sig, pos)
        out.append(sig[pos:end])
        pos = end
    return out


def _one(sig, pos):
    ch = sig[pos]
    if ch == 'a':
        return _one(sig, pos + 1)
    if ch == '(':
        pos += 1
        while sig[pos] != ')':
            pos = _one(sig, pos)
        return pos + 1
    if ch == '{':
        pos += 1
        pos = _one(sig, pos)
        pos = _one(sig, pos)
        if sig[pos] != '}':
            raise ValueError('bad dict entry in signature')
        return pos + 1
    if ch in 'ybnqiuxtdsogvh':
        return pos + 1
    raise ValueError('bad signature char %r' % ch)


def check(signature, values):
    types = split_signature(signature)
    values = list(values)
    if len(types) != len(values):
        raise TypeError('More items found in D-Bus signature than in Python arguments'
                        if len(types) > len(values) else
                        'Fewer items found in D-Bus signature than in Python arguments')
    for typ, val in zip(types, values):
        check_one(typ, val)


def guess_signature(val):
    ''' dbus-python's type guessing for a variant. '''
    from dbus import _types as T  # shim types
    if isinstance(val, T.ObjectPath):
        return 'o'
    if isinstance(val, T.Signature):
        return 'g'
    if isinstance(val, T.String):
        return 's'
    if isinstance(val, T.ByteArray):
        return 'ay'
    if isinstance(val, T.Boolean) or val is True or val is False:
        return 'b'
    for cls, code in ((T.Byte, 'y'), (T.Int16, 'n'), (T.UInt16, 'q'), (T.Int32, 'i'),
                      (T.UInt32, 'u'), (T.Int64, 'x'), (T.UInt64, 't'), (T.Double, 'd')):
        if isinstance(val, cls):
            return code
    if isinstance(val, T.Array) and val.signature is not None:
        return 'a' + val.signature
    if isinstance(val, T.Dictionary) and val.signature is not None:
        return 'a{' + val.signature + '}'
    if isinstance(val, int):
        return 'i'   # Python 3: a plain int is INT32
    if isinstance(val, float):
        return 'd'
    if isinstance(val, str):
        return 's'
    if isinstance(val, (bytes, bytearray)):
        return 'ay'
    if isinstance(val, tuple):
        return '(' + ''.join(guess_signature(v) for v in val) + ')'
    if isinstance(val, list):
        if not val:
            raise ValueError('Unable to guess signature from an empty list')
        return 'a' + guess_signature(val[0])
    if isinstance(val, dict):
        if not val:
            raise ValueError('Unable to guess signature from an empty dict')
        key, item = next(iter(val.items()))
        return 'a{' + guess_signature(key) + guess_signature(item) + '}'
    raise TypeError("Don't know which D-Bus type to use to encode type \"%s\"" % type(val).__name__)


def check_one(typ, val):
    ch = typ[0]
    if ch in _INT_RANGES:
        if ch == 'y' and isinstance(val, (bytes, bytearray)):
            if len(val) != 1:
                raise ValueError('Expected a length-1 bytes but found %d bytes' % len(val))
            return
        if val is None or isinstance(val, (list, dict, tuple, set)):
            raise TypeError('an integer is required (got type %s)' % type(val).__name__)
        num = int(val)   # PyNumber_Long: str digits are parsed, others raise
        low, high = _INT_RANGES[ch]
        if num < low or num > high:
            raise OverflowError('Value %d out of range for D-Bus type %s' % (num, ch))
        return
    if ch == 'b':
        bool(val)
        return
    if ch == 'd':
        float(val)
        return
    if ch in 'sog':
        if isinstance(val, (bytes, bytearray)):
            text = bytes(val).decode('utf-8')   # UnicodeDecodeError is a ValueError
        elif isinstance(val, str):
            text = val
            text.encode('utf-8')
        else:
            raise TypeError('Expected a string or unicode object (got %s)' % type(val).__name__)
        if '\x00' in text:
            raise ValueError('embedded null character')
        if ch == 'o' and not _OBJPATH.match(text):
            raise ValueError('Invalid object path %r' % text)
        return
    if ch == 'v':
        sig = guess_signature(val)
        check_one(sig, val)
        return
    if ch == 'a':
        sub = typ[1:]
        if sub[0] == '{':
            inner = split_signature(sub[1:-1])
            if not hasattr(val, 'items'):
                raise TypeError('Expected a mapping for signature %s (got %s)' % (typ, type(val).__name__))
            for key, item in val.items():
                check_one(inner[0], key)
                check_one(inner[1], item)
            return
        if sub == 'y' and isinstance(val, (bytes, bytearray)):
            return
        if isinstance(val, str) and sub != 's':
            pass  # a str is iterable; elements checked below (will fail for ints)
        try:
            iterator = iter(val)
        except TypeError:
            raise TypeError('Expected an iterable for signature %s (got %s)' % (typ, type(val).__name__))
        for item in iterator:
            check_one(sub, item)
        return
    if ch == '(':
        inner = split_signature(typ[1:-1])
        if not isinstance(val, tuple):
            raise TypeError('Expected a tuple for signature %s' % typ)
        if len(inner) != len(val):
            raise TypeError('struct length mismatch')
        for sub, item in zip(inner, val):
            check_one(sub, item)
        return
    raise ValueError('unhandled signature %r' % typ)


def convert_one(typ, val):
    ''' What the receiving side of a bus message gets for ``val`` sent as type ``typ``: the
    value is checked (as by check_one) and rebuilt from dbus-python's own types, as its
    unmarshalling does (message-get-args.c; byte arrays arrive as Array of Byte). '''
    from dbus import _types as T  # shim types
    check_one(typ, val)
    ch = typ[0]
    simple = {'y': T.Byte, 'n': T.Int16, 'q': T.UInt16, 'i': T.Int32, 'u': T.UInt32, 'x': T.Int64, 't': T.UInt64}
    if ch in simple:
        if ch == 'y' and isinstance(val, (bytes, bytearray)):
            return T.Byte(val[0])
        return simple[ch](int(val))
    if ch == 'b':
        return T.Boolean(bool(val))
    if ch == 'd':
        return T.Double(float(val))
    if ch in 'sog':
        text = bytes(val).decode('utf-8') if isinstance(val, (bytes, bytearray)) else str(val)
        return {'s': T.String, 'o': T.ObjectPath, 'g': T.Signature}[ch](text)
    if ch == 'v':
        return convert_one(guess_signature(val), val)
    if ch == 'a':
        sub = typ[1:]
        if sub[0] == '{':
            inner = split_signature(sub[1:-1])
            return T.Dictionary(((convert_one(inner[0], key), convert_one(inner[1], item)) for key, item in val.items()),
                                signature=sub[1:-1])
        return T.Array([convert_one(sub, item) for item in val], signature=sub)
    if ch == '(':
        inner = split_signature(typ[1:-1])
        return T.Struct(convert_one(sub, item) for sub, item in zip(inner, val))
    raise ValueError('unhandled signature %r' % typ)


def convert(signature, values):
    types = split_signature(signature)
    values = list(values)
    if len(types) != len(values):
        raise TypeError('More items found in D-Bus signature than in Python arguments'
                        if len(types) > len(values) else
                        'Fewer items found in D-Bus signature than in Python arguments')
    return [convert_one(typ, val) for typ, val in zip(types, values)]
