''' In-memory Ethernet segment with AF_PACKET raw sockets for btpu.agent.

Modelled after Linux packet(7): every packet socket bound to an interface and
protocol gets its own copy of every matching frame that the interface
receives (pkttype PACKET_HOST / BROADCAST / MULTICAST; frames for another
station are not delivered, the interface is not promiscuous); a frame sent
through one socket is also shown to the *other* packet sockets of the sending
host (PACKET_OUTGOING), never to the sending socket itself.  A frame shorter
than the Ethernet minimum is padded with zero octets by the sending interface
(46 octets of payload), as real hardware does.  The harness owns the segment:
frames wait in NET.inflight until it delivers them, in any order.
'''
import socket as _real

from . import simloop

IO_IN = 1
PACKET_HOST, PACKET_BROADCAST, PACKET_MULTICAST, PACKET_OTHERHOST, PACKET_OUTGOING = 0, 1, 2, 3, 4
MIN_PAYLOAD = 46


class Segment(object):
    def __init__(self):
        self.reset()

    def reset(self):
        self.hosts = {}        # main-loop context -> (host name, {ifname: mac bytes})
        self.sockets = []
        self.inflight = []     # dict(frame=bytes, src_host=, sender=socket, t_ms=)
        self.sent_log = []
        self.pad = True

    def add_host(self, ctx, name, interfaces):
        self.hosts[ctx] = (name, dict(interfaces))

    def current(self):
        ent = self.hosts.get(simloop.current())
        if ent is None:
            raise RuntimeError('packet socket outside any simulated host')
        return ent

    def deliver(self, item):
        ''' The segment carries one frame to every station it concerns. '''
        frame = item['frame']
        dst = frame[0:6]
        proto = int.from_bytes(frame[12:14], 'big')
        count = 0
        for sock in self.sockets:
            if sock.closed or sock.proto not in (proto, 0x0003) or sock.ifname is None:
                continue
            if sock.host == item['src_host']:
                continue     # (its copy, marked outgoing, was handed over at send time)
            if dst == sock.mac:
                pkttype = PACKET_HOST
            elif dst == b'\xff' * 6:
                pkttype = PACKET_BROADCAST
            elif dst[0] & 1 and dst in sock.memberships:
                pkttype = PACKET_MULTICAST
            else:
                continue
            sock.rxq.append((frame, (sock.ifname, proto, pkttype, 1, frame[6:12])))
            count += 1
        return count


NET = Segment()


class PacketSocket(object):
    def __init__(self, family, type_, proto=0, fileno=None):
        if family != _real.AF_PACKET:
            raise OSError(97, 'Address family not supported by the simulated segment')
        self.host, self.interfaces = NET.current()
        self.proto = proto
        self.ifname = None
        self.mac = None
        self.rxq = []
        self.closed = False
        self.opts = []
        self.memberships = set()
        NET.sockets.append(self)

    def setsockopt(self, *args):
        self.opts.append(args)

    def bind(self, addr):
        ifname = addr[0]
        if ifname not in self.interfaces:
            raise OSError(19, 'No such device')
        self.ifname = ifname
        self.mac = self.interfaces[ifname]
        if addr[1]:
            self.proto = addr[1]

    def getsockname(self):
        return (self.ifname, self.proto, 0, 1, self.mac)

    def send(self, data):
        if self.closed:
            raise OSError(9, 'Bad file descriptor')
        if self.ifname is None:
            raise OSError(6, 'No such device or address')
        frame = bytes(data)
        if NET.pad and len(frame) < 14 + MIN_PAYLOAD:
            frame = frame + bytes(14 + MIN_PAYLOAD - len(frame))
        item = dict(frame=frame, src_host=self.host, sender=self, t_ms=simloop.CLOCK.now_ms, unpadded=len(bytes(data)))
        NET.inflight.append(item)
        NET.sent_log.append(item)
        proto = int.from_bytes(frame[12:14], 'big')
        for sock in NET.sockets:
            # the other packet sockets of this host see the frame as outgoing
            if sock is not self and not sock.closed and sock.host == self.host and sock.ifname == self.ifname \
                    and sock.proto in (proto, 0x0003):
                sock.rxq.append((bytes(data), (sock.ifname, proto, PACKET_OUTGOING, 1, frame[6:12])))
        return len(data)

    def recvfrom(self, bufsize):
        if not self.rxq:
            raise BlockingIOError(11, 'Resource temporarily unavailable')
        frame, addr = self.rxq.pop(0)
        return frame[:bufsize], addr

    def recv(self, bufsize):
        return self.recvfrom(bufsize)[0]

    def close(self):
        self.closed = True

    def fileno(self):
        return -1 if self.closed else 3000 + id(self) % 1000

    def _sim_ready(self, cond):
        return bool(cond & IO_IN) and bool(self.rxq) and not self.closed


class _SocketProxy(object):
    ''' Stands in for the ``socket`` module inside btpu.agent only. '''
    socket = PacketSocket
    PACKET_OTHERHOST = PACKET_OTHERHOST
    PACKET_OUTGOING = PACKET_OUTGOING

    @staticmethod
    def if_nametoindex(name):
        return 1 + sorted(NET.current()[1]).index(name)

    def __getattr__(self, name):
        return getattr(_real, name)


class _Psutil(object):
    ''' Stands in for ``psutil`` inside btpu.agent: the link-layer addresses of the running host. '''
    AF_LINK = 17

    class _Addr(object):
        def __init__(self, family, address):
            self.family = family
            self.address = address

    def net_if_addrs(self):
        _name, interfaces = NET.current()
        return dict((ifname, [self._Addr(2, '192.0.2.1'), self._Addr(self.AF_LINK, ':'.join('%02x' % b for b in mac))])
                    for ifname, mac in interfaces.items())


def install():
    from . import boot
    boot.btpu()
    import btpu.agent
    btpu.agent.socket = _SocketProxy()
    btpu.agent.psutil = _Psutil()
    return btpu.agent
