''' In-memory datagram sockets for udpcl.agent (DESIGN.md section 2.5).

The name ``socket`` inside udpcl.agent is rebound to a proxy that forwards
every constant and helper to the real module but whose ``socket`` class is an
in-memory UDP endpoint.  The harness owns the network: every datagram sent is
appended to NET.inflight and reaches its destination only when the harness
delivers it (any order, any number of times).
'''
import socket as _real

from . import boot, simloop

IO_IN = 1
UDP_MAX = 65507


class Network(object):
    def __init__(self):
        self.reset()

    def reset(self):
        self.bound = {}        # (ip, port) -> socket
        self.inflight = []     # dict(src=(ip,port), dst=(ip,port), data=bytes, t_ms=int)
        self.sent_log = []     # every datagram ever sent
        self.current_host = '10.0.0.1'
        self.current_owner = None   # label of the agent whose code is running (several agents may share a host)
        self.ctx_hosts = {}         # main-loop context -> (host, owner): overrides current_host/current_owner (stack world)
        self.next_port = 50000
        self.dropped = 0
        self.send_calls = 0
        self.fail_at = None         # the sendmsg call with this number (from 0) fails once (injected fault)
        self.failed = []            # datagrams whose sendmsg was made to fail: dict(owner=, data=)

    def deliver(self, dgram):
        ''' Hand one datagram (a dict from inflight / sent_log, or a fresh one) to its destination. '''
        sock = self.bound.get(tuple(dgram['dst']))
        if sock is None or sock.closed:
            self.dropped += 1
            return False
        sock.rxq.append((bytes(dgram['data']), tuple(dgram['src'])))
        return True


NET = Network()


class SimUdpSocket(object):
    def __init__(self, family=_real.AF_INET, type=_real.SOCK_DGRAM, proto=0, fileno=None):
        self.family = family
        self.type = type
        self.proto = proto
        self.host, self.owner = NET.ctx_hosts.get(simloop.current(), (NET.current_host, NET.current_owner))
        self.port = None
        self.rxq = []
        self.opts = []
        self.closed = False

    def setsockopt(self, *args):
        self.opts.append(args)

    def _ensure_port(self):
        if self.port is None:
            self.port = NET.next_port
            NET.next_port += 1
            NET.bound[(self.host, self.port)] = self

    def bind(self, addr):
        host, port = addr[0], addr[1]
        if host in ('', '0.0.0.0', '::'):
            host = self.host
        self.host = host
        if port:
            self.port = port
            # (SO_REUSEADDR semantics for unicast UDP: the socket bound last receives; when it goes, the one it shadowed
            # receives again)
            self._shadowed = NET.bound.get((self.host, self.port))
            NET.bound[(self.host, self.port)] = self
        else:
            self._ensure_port()

    def getsockname(self):
        self._ensure_port()
        return (self.host, self.port)

    def sendmsg(self, buffers, ancdata=(), flags=0, address=None):
        data = b''.join(bytes(b) for b in buffers)
        if len(data) > UDP_MAX:
            raise OSError(90, 'Message too long')
        number = NET.send_calls
        NET.send_calls += 1
        if NET.fail_at is not None and number == NET.fail_at:
            NET.failed.append(dict(owner=self.owner, data=data))
            raise OSError(101, 'Network is unreachable')
        self._ensure_port()
        dgram = dict(src=(self.host, self.port), dst=(address[0], address[1]), data=data, t_ms=simloop.CLOCK.now_ms,
                     owner=self.owner)
        NET.inflight.append(dgram)
        NET.sent_log.append(dgram)
        return len(data)

    def sendto(self, data, address):
        return self.sendmsg([data], (), 0, address)

    def recvmsg(self, bufsize, ancbufsize=0, flags=0):
        if not self.rxq:
            raise BlockingIOError(11, 'Resource temporarily unavailable')
        data, src = self.rxq.pop(0)
        return (data[:bufsize], [], 0, src)

    def recvfrom(self, bufsize):
        data, _anc, _flags, src = self.recvmsg(bufsize)
        return data, src

    def close(self):
        self.closed = True
        if self.port is not None and NET.bound.get((self.host, self.port)) is self:
            del NET.bound[(self.host, self.port)]
            shadowed = getattr(self, '_shadowed', None)
            if shadowed is not None and not shadowed.closed:
                NET.bound[(self.host, self.port)] = shadowed

    def fileno(self):
        return -1 if self.closed else 2000 + id(self) % 1000

    def _sim_ready(self, cond):
        return bool(cond & IO_IN) and bool(self.rxq) and not self.closed


class _SocketProxy(object):
    ''' Stands in for the ``socket`` module inside udpcl.agent only. '''
    socket = SimUdpSocket

    def __getattr__(self, name):
        return getattr(_real, name)


class _VirtualTime(object):
    ''' Stands in for the ``time`` module inside udpcl.agent only. '''

    @staticmethod
    def monotonic_ns():
        return simloop.CLOCK.now_ms * 1000000

    @staticmethod
    def monotonic():
        return simloop.CLOCK.now_ms / 1000.0

    def __getattr__(self, name):
        import time
        return getattr(time, name)


def install():
    boot.udpcl()
    import udpcl.agent
    from . import tcpcl_world as tw
    udpcl.agent.socket = _SocketProxy()
    udpcl.agent.time = _VirtualTime()
    # ``from datetime import datetime`` in udpcl.agent: rebind the class name to the virtual clock
    udpcl.agent.datetime = tw.VIRTUAL_DATETIME.datetime
    return udpcl.agent
