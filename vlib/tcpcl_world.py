''' Two real TCPCL ContactHandlers (or one against a scripted peer) on the
virtual loop and the simulated network (DESIGN.md section 2.5). '''
import datetime as _real_datetime
import ssl

from . import boot, simloop, simnet, dbusmodel, ref9174

boot.tcpcl()
import dbus  # noqa: E402  (shim)
import tcpcl.session  # noqa: E402
import tcpcl.agent  # noqa: E402
import tcpcl.config  # noqa: E402

EPOCH = _real_datetime.datetime(2025, 1, 1, tzinfo=_real_datetime.timezone.utc)


class _VirtualDatetimeClass(object):
    ''' Stands in for the ``datetime.datetime`` class inside repo modules. '''

    @staticmethod
    def now(tz=None):
        val = EPOCH + _real_datetime.timedelta(milliseconds=simloop.CLOCK.now_ms)
        if tz is None:
            return val.replace(tzinfo=None)
        return val.astimezone(tz)

    def __call__(self, *args, **kwargs):
        return _real_datetime.datetime(*args, **kwargs)

    def __getattr__(self, name):
        return getattr(_real_datetime.datetime, name)


class _VirtualDatetimeModule(object):
    datetime = _VirtualDatetimeClass()
    timezone = _real_datetime.timezone
    timedelta = _real_datetime.timedelta
    date = _real_datetime.date

    def __getattr__(self, name):
        return getattr(_real_datetime, name)


VIRTUAL_DATETIME = _VirtualDatetimeModule()
tcpcl.session.datetime = VIRTUAL_DATETIME


class FakeTLSSocket(object):
    ''' Pass-through "TLS" socket with a scripted handshake and peer certificate. '''

    def __init__(self, raw, script):
        self.raw = raw
        self.script = script
        self.handshaken = False

    def do_handshake(self):
        # a handshake with a peer that is gone fails with the socket's own error, not with an SSLError
        tx, rx = getattr(self.raw, 'tx', None), getattr(self.raw, 'rx', None)
        if tx is not None and (tx.reader_closed or tx.writer_closed):
            raise ConnectionResetError(104, 'Connection reset by peer')
        if rx is not None and rx.eof_visible():
            raise OSError(107, 'Transport endpoint is not connected')
        if self.script.get('handshake') == 'fail':
            raise ssl.SSLError(1, '[SSL] scripted handshake failure')
        self.handshaken = True

    def cipher(self):
        return ('TLS_AES_128_GCM_SHA256', 'TLSv1.3', 128)

    def getpeercert(self, binary_form=False):
        der = self.script.get('peer_cert_der')
        if binary_form:
            return der
        return {} if der else None

    def unwrap(self):
        return self.raw

    # TLS hands data over in records of up to 16384 octets: a read takes a whole record off the TCP socket, and what
    # the caller did not ask for stays inside the TLS object (SSLSocket.pending()), invisible to a readiness poll of
    # the file descriptor.  Modelled when the script says 'records': True.
    RECORD_MAX = 16384

    def recv(self, bufsize):
        lens = self.script.get('record_lens')
        if lens:
            # the harness has said where the peer's next TLS record ends: a record is handed over only when all of it
            # has arrived; until then a read takes the piece off the TCP socket (the readiness notification has fired
            # for it) and reports SSLWantReadError, as OpenSSL does for a record that is still incomplete
            part = self.__dict__.setdefault('_part', bytearray())
            piece = self.raw.recv(lens[0] - len(part))
            if not piece:
                return piece
            part += piece
            if len(part) < lens[0]:
                raise ssl.SSLWantReadError(2, 'The operation did not complete (read)')
            lens.pop(0)
            held = self.__dict__.setdefault('_held', bytearray())
            held += part
            del part[:]
            out = bytes(held[:bufsize])
            del held[:len(out)]
            return out
        if not self.script.get('records') and not self.__dict__.get('_held'):
            return self.raw.recv(bufsize)
        held = self.__dict__.setdefault('_held', bytearray())
        if not held:
            data = self.raw.recv(self.RECORD_MAX)
            if not data:
                return data
            held += data
        out = bytes(held[:bufsize])
        del held[:len(out)]
        return out

    def pending(self):
        return len(self.__dict__.get('_held', b''))

    def __getattr__(self, name):
        return getattr(self.raw, name)


class FakeSSLContext(object):
    def __init__(self, script):
        self.script = script
        self.wrapped = []

    def wrap_socket(self, sock, server_side=False, server_hostname=None, do_handshake_on_connect=True):
        tls = FakeTLSSocket(sock, self.script)
        self.wrapped.append(dict(server_side=server_side, server_hostname=server_hostname))
        return tls


class SimConfig(tcpcl.config.Config):
    ''' The repo Config with only get_ssl_context() replaced. '''
    tls_script = None

    def get_ssl_context(self):
        if not self.tls_enable:
            return None
        return FakeSSLContext(self.tls_script or {})


def make_config(node_id, tls_script=None, **kwargs):
    ''' The configuration is loaded the way a deployment loads it: Config.from_file() on a YAML document (written in
    JSON form, which is valid YAML) holding the options under "tcpcl". '''
    import io
    import json
    kwargs.setdefault('tls_enable', False)
    doc = dict(node_id=node_id)
    for key, val in kwargs.items():
        doc[key] = sorted(val) if isinstance(val, (set, frozenset)) else val
    cfg = SimConfig()
    cfg.from_file(io.StringIO(json.dumps({'tcpcl': doc})))
    for key in doc:
        if not hasattr(cfg, key):
            raise boot.BootError('tcpcl.config.Config has no option %r' % key)
    cfg.tls_script = tls_script
    return cfg


class CallError(object):
    ''' A D-Bus method call answered with an error reply. '''

    def __init__(self, exc):
        self.exc = exc
        self.name = type(exc).__name__

    def __repr__(self):
        return 'CallError(%s: %s)' % (self.name, self.exc)


def dbuscall(ctx, obj, member, *args):
    ''' Call an exported method the way the bus would: marshal the arguments
    against in_signature, run it inside the endpoint's context, marshal the
    result against out_signature.  Everything is recorded in dbus.RECORDER. '''
    meth = getattr(obj, member)
    in_sig = getattr(meth, '_dbus_in_signature', None)
    out_sig = getattr(meth, '_dbus_out_signature', None)
    if in_sig is not None:
        dbusmodel.check(in_sig, args)   # a harness bug if this raises
    if hasattr(obj, 'locations') and not list(obj.locations):
        # the object was removed from the bus: the daemon answers UnknownObject, the method never runs
        err = dbus.DBusException('no such object', name='org.freedesktop.DBus.Error.UnknownObject')
        dbus.RECORDER.add(kind='method-error', obj=obj, path=getattr(obj, '_object_path', None), member=member,
                          args=args, error='UnknownObject')
        return CallError(err)
    try:
        ret = ctx.call(meth, *args)
    except Exception as err:
        dbus.RECORDER.add(kind='method-error', obj=obj, path=getattr(obj, '_object_path', None), member=member,
                          args=args, error='%s: %s' % (type(err).__name__, err))
        return CallError(err)
    marshal_error = None
    if out_sig:
        parts = dbusmodel.split_signature(out_sig)
        try:
            if len(parts) == 1:
                dbusmodel.check_one(parts[0], ret)
            else:
                dbusmodel.check(out_sig, ret)
        except (TypeError, ValueError, OverflowError) as err:
            marshal_error = '%s: %s' % (type(err).__name__, err)
    dbus.RECORDER.add(kind='return', obj=obj, path=getattr(obj, '_object_path', None), member=member,
                      args=args, signature=out_sig, value=ret, error=marshal_error)
    return ret


class Endpoint(object):
    def __init__(self, name, config):
        self.name = name
        self.config = config
        self.ctx = simloop.Context(name)
        with simloop.entered(self.ctx):
            self.agent = tcpcl.agent.Agent(config)
        self.hdl = None
        self.sock = None

    def attach(self, sock, passive, addr):
        self.sock = sock
        with simloop.entered(self.ctx):
            if passive:
                self.hdl = self.agent._bind_handler(config=self.config, sock=sock, fromaddr=addr)
            else:
                self.hdl = self.agent._bind_handler(config=self.config, sock=sock, toaddr=addr)
            self.hdl.start()
        return self.hdl

    def connect_by_name(self, sock, name, port, resolved_ip):
        ''' The user asks the agent to connect to a host *name* (D-Bus method Agent.connect): the name resolves to
        ``resolved_ip`` and the TCP connection that results is ``sock``. '''
        import socket as real_socket

        class Facade(object):
            def socket(self_inner, *_a, **_k):
                sock.connect = lambda _addr: None
                return sock

            def getaddrinfo(self_inner, text, *args, **kwargs):
                if text == name:
                    return [(real_socket.AF_INET, real_socket.SOCK_STREAM, 6, '', (resolved_ip, 0))]
                return real_socket.getaddrinfo(text, *args, **kwargs)

            def __getattr__(self_inner, attr):
                return getattr(real_socket, attr)
        self.sock = sock
        saved = tcpcl.agent.socket
        tcpcl.agent.socket = Facade()
        try:
            path = dbuscall(self.ctx, self.agent, 'connect', name, dbus.UInt16(port))
        finally:
            tcpcl.agent.socket = saved
        if isinstance(path, CallError):
            raise path.exc
        self.hdl = self.agent.handler_for_path(path)
        return self.hdl

    def call(self, member, *args):
        return dbuscall(self.ctx, self.hdl, member, *args)

    def signals(self, member=None):
        return [e for e in dbus.RECORDER.events
                if e['kind'] == 'signal' and e['obj'] is self.hdl and (member is None or e['member'] == member) and e.get('exported', True)]

    def agent_signals(self, member=None):
        return [e for e in dbus.RECORDER.events
                if e['kind'] == 'signal' and e['obj'] is self.agent and (member is None or e['member'] == member)]


class World(object):
    ''' side 'A' is the active (connecting) endpoint, 'B' the passive one.
    With scripted=True side B has no endpoint: the harness reads and writes
    B's socket directly (vlib.ref9174 is the peer). '''

    def __init__(self, cfg_a, cfg_b=None, cap_ab=None, cap_ba=None, scripted=False, real_is_passive=False,
                 peer_name=None):
        simloop.reset()
        dbus.RECORDER.reset()
        self.link = simnet.Link(cap_ab, cap_ba)
        self.scripted = scripted
        self.real_is_passive = real_is_passive
        self.ends = {}
        addr_b = ('10.0.0.2', 4556)
        addr_a = ('10.0.0.1', 40000)
        if scripted:
            if real_is_passive:
                # real endpoint is B (passive), harness plays A
                self.ends['B'] = Endpoint('B', cfg_a)
                self.ends['B'].attach(self.link.sock_b, True, addr_a)
                self.peer_sock = self.link.sock_a
                self.real = self.ends['B']
                self.rx_pipe = self.link.ba    # what the real endpoint wrote
                self.tx_pipe = self.link.ab
            else:
                self.ends['A'] = Endpoint('A', cfg_a)
                if peer_name:
                    self.ends['A'].connect_by_name(self.link.sock_a, peer_name, addr_b[1], addr_b[0])
                else:
                    self.ends['A'].attach(self.link.sock_a, False, (addr_b[0], addr_b[1]))
                self.peer_sock = self.link.sock_b
                self.real = self.ends['A']
                self.rx_pipe = self.link.ab
                self.tx_pipe = self.link.ba
        else:
            self.ends['A'] = Endpoint('A', cfg_a)
            self.ends['B'] = Endpoint('B', cfg_b)
            self.ends['B'].attach(self.link.sock_b, True, addr_a)
            if peer_name:
                self.ends['A'].connect_by_name(self.link.sock_a, peer_name, addr_b[1], addr_b[0])
            else:
                self.ends['A'].attach(self.link.sock_a, False, (addr_b[0], addr_b[1]))

    # -- scheduler decisions ---------------------------------------------------
    def iterate(self, side):
        return self.ends[side].ctx.iterate()

    def deliver(self, direction, count=None):
        return self.link.pipe(direction).deliver(count)

    def next_due(self):
        dues = [e.ctx.next_due() for e in self.ends.values()]
        dues = [d for d in dues if d is not None]
        return min(dues) if dues else None

    def advance_to_next_timer(self, limit_ms=None):
        due = self.next_due()
        if due is None:
            return False
        if limit_ms is not None and due > limit_ms:
            return False
        if due > simloop.CLOCK.now_ms:
            simloop.advance_to(due)
        return True

    def anything_ready(self):
        return any(e.ctx.has_ready() for e in self.ends.values())

    def in_flight(self):
        return len(self.link.ab.inflight) + len(self.link.ba.inflight)

    def observable(self):
        ''' Signature of everything a round can visibly change. '''
        sig = [dbus.RECORDER.seq, len(self.link.ab.log), len(self.link.ba.log),
               len(self.link.ab.readable), len(self.link.ba.readable),
               self.link.sock_a.closed, self.link.sock_b.closed]
        for side in sorted(self.ends):
            hdl = self.ends[side].hdl
            if hdl is not None:
                sig += [hdl.recv_buffer_used(), hdl.send_buffer_used(), hdl._state,
                        len(hdl._tx_pend_start), len(hdl._tx_pend_ack), hdl._tx_tmp is None]
            sig.append(len(self.ends[side].ctx.escapes))
        return sig

    def drain(self, max_rounds=4000, deliver=True, advance_timers=False, stop=None, spin_rounds=4):
        ''' Fair round-robin until quiescent: nothing in flight and either no
        source is ready or ``spin_rounds`` consecutive rounds dispatched callbacks
        without any observable effect (an idle source that keeps re-arming itself,
        e.g. the transmit queue waiting for a session, is not progress).
        :return: rounds used, or None if the bound was hit. '''
        quiet = 0
        for rnd in range(max_rounds):
            before = self.observable()
            moved = False
            if deliver:
                for direction in ('ab', 'ba'):
                    if self.link.pipe(direction).deliver():
                        moved = True
            dispatched = 0
            for side in sorted(self.ends):
                dispatched += self.ends[side].ctx.iterate()
            if stop is not None and stop():
                return rnd
            if moved or self.observable() != before:
                quiet = 0
                continue
            quiet += 1
            if dispatched == 0 or quiet >= spin_rounds:
                if advance_timers and self.advance_to_next_timer():
                    quiet = 0
                    continue
                return rnd
        return None

    def settle(self, max_rounds=400, spin_rounds=3, on_deliver=None):
        ''' Scripted mode: deliver everything both ways and run the real endpoint until
        nothing observable changes any more (a self re-arming idle source is not progress). '''
        end = self.real
        quiet = 0
        for _ in range(max_rounds):
            before = self.observable()
            moved = self.tx_pipe.deliver()
            if moved and on_deliver is not None:
                on_deliver()
            if end.sock.closed:
                break
            ran = end.ctx.iterate()
            self.rx_pipe.deliver()
            if moved or self.observable() != before:
                quiet = 0
                continue
            quiet += 1
            if not ran or quiet >= spin_rounds:
                break
        self.rx_pipe.deliver()

    # -- scripted peer helpers ------------------------------------------------------
    def peer_send(self, data):
        ''' The scripted peer writes octets; they are in flight until delivered. '''
        return self.peer_sock.send(data)

    def peer_send_msg(self, msg):
        return self.peer_send(ref9174.encode(msg))

    def real_wire(self):
        return bytes(self.rx_pipe.log)

    def escapes(self):
        out = []
        for end in self.ends.values():
            out.extend(end.ctx.escapes)
        return out


def wire_messages(pipe):
    return ref9174.parse_stream(bytes(pipe.log), expect_contact=True)


_cert_cache = {}


def make_cert(sans, peer_addr, nodeid):
    ''' Self-signed EC certificate with the given SAN kinds (DER), or None. '''
    if sans is None:
        return None
    key = (tuple(sans), peer_addr, nodeid)
    if key in _cert_cache:
        return _cert_cache[key]
    import datetime
    import ipaddress
    from cryptography import x509
    from cryptography.hazmat.primitives import hashes, serialization
    from cryptography.hazmat.primitives.asymmetric import ec
    from cryptography.x509.oid import NameOID
    if 'key' not in _cert_cache:
        _cert_cache['key'] = ec.generate_private_key(ec.SECP256R1())
    pkey = _cert_cache['key']
    names = []
    for kind in sans:
        if kind == 'ip-match':
            names.append(x509.IPAddress(ipaddress.ip_address(peer_addr)))
        elif kind == 'ip-other':
            names.append(x509.IPAddress(ipaddress.ip_address('192.0.2.99')))
        elif kind == 'dns-a':
            names.append(x509.DNSName('node.example'))
        elif kind == 'dns-b':
            names.append(x509.DNSName('other.example'))
        elif kind == 'uri-match':
            names.append(x509.UniformResourceIdentifier(nodeid or 'dtn://unnamed/'))
        elif kind == 'uri-other':
            names.append(x509.UniformResourceIdentifier('dtn://somebody-else/'))
        elif kind == 'uri-other2':
            names.append(x509.UniformResourceIdentifier('ipn:99.0'))
        elif kind == 'uri-case':
            # differs from the announced node ID only in the letter case of its path (the part of a URI that is
            # case-sensitive under every normalisation): another node
            parts = (nodeid or '').split('/', 3)
            if len(parts) == 4 and parts[3].swapcase() != parts[3]:
                names.append(x509.UniformResourceIdentifier('/'.join(parts[:3] + [parts[3].swapcase()])))
            else:
                names.append(x509.UniformResourceIdentifier('dtn://peer/sVC'))
    subject = x509.Name([x509.NameAttribute(NameOID.COMMON_NAME, 'peer')])
    builder = (x509.CertificateBuilder().subject_name(subject).issuer_name(subject).public_key(pkey.public_key())
               .serial_number(1000 + len(_cert_cache))
               .not_valid_before(datetime.datetime(2020, 1, 1)).not_valid_after(datetime.datetime(2040, 1, 1)))
    if names:
        builder = builder.add_extension(x509.SubjectAlternativeName(names), critical=False)
    der = builder.sign(pkey, hashes.SHA256()).public_bytes(serialization.Encoding.DER)
    _cert_cache[key] = der
    return der
