''' Generator / executor / oracles for real UDPCL agents over vlib.simudp
(used by C13 for the transfer property and by C18 for the D-Bus view). '''
from hypothesis import strategies as st

from . import boot, simloop, simudp, cborpull as cb, ref9171 as r
from . import tcpcl_world as tw
from .strat9174 import content

uagent = simudp.install()
import dbus  # noqa: E402  (shim)
import udpcl.config  # noqa: E402

RECV = ('10.0.0.9', 4556)


def make_bundle(plen, seed):
    ''' A real (reference-encoded) bundle whose payload has plen octets. '''
    bundle = {'primary': dict(version=7, flags=0, crc_type=1, dest=['dtn', '//dst/svc'], src=['dtn', '//s%d/' % (seed % 7)],
                              rpt=['dtn', 'none'], ts=[1000 + seed, seed], lifetime=1000, frag=None),
              'blocks': [dict(type=1, num=1, flags=0, crc_type=0, data=content(plen, seed).hex())]}
    return r.encode(bundle)


class Agent(object):
    def __init__(self, host, mtu=None, listen_port=None, node_id='dtn://udp/'):
        self.host = host
        self.name = node_id
        self.ctx = simloop.Context(host)
        # loaded the way a deployment loads it: Config.from_file() on a YAML document (JSON form); a listener named
        # there is started by the agent itself
        import io
        import json
        doc = dict(node_id=node_id)
        if mtu is not None:
            doc['mtu_default'] = int(mtu)
        if listen_port:
            doc['init_listen'] = [dict(address=host, port=int(listen_port))]
        cfg = udpcl.config.Config()
        cfg.from_file(io.StringIO(json.dumps({'udpcl': doc})))
        self.config = cfg
        simudp.NET.current_host = host
        simudp.NET.current_owner = self.name
        with simloop.entered(self.ctx):
            self.agent = uagent.Agent(cfg)

    def call(self, member, *args):
        simudp.NET.current_host = self.host
        simudp.NET.current_owner = self.name
        return tw.dbuscall(self.ctx, self.agent, member, *args)

    def iterate(self):
        simudp.NET.current_host = self.host
        simudp.NET.current_owner = self.name
        return self.ctx.iterate()

    def settle(self, limit=200):
        for _ in range(limit):
            if not self.iterate():
                break

    def signals(self, member=None):
        return [e for e in dbus.RECORDER.events
                if e['kind'] == 'signal' and e['obj'] is self.agent and (member is None or e['member'] == member)]


def reset():
    simloop.reset()
    dbus.RECORDER.reset()
    simudp.NET.reset()


def run_senders(agents, max_ms=400000):
    ''' Advance virtual time until no sender has anything left to transmit. '''
    for _ in range(100000):
        for ag in agents:
            ag.settle()
        busy = False
        for ag in agents:
            if ag.agent._tx_queue:
                busy = True
            for wait in ag.agent._send_wait.values():
                if wait.cur_item is not None or wait.tx_item_queue or wait.pri_item_queue or wait.cur_dgram is not None:
                    busy = True
        dues = [ag.ctx.next_due() for ag in agents if ag.ctx.next_due() is not None]
        if not busy or not dues:
            break
        nxt = min(dues)
        if nxt > max_ms:
            return False
        simloop.advance_to(max(nxt, simloop.CLOCK.now_ms))
    return True


# --- strategies ----------------------------------------------------------------------------

LENGTHS = [1, 23, 24, 255, 256, 257, 1000, 3000, 65507 - 40, 70000]


@st.composite
def cases(draw):
    mtu = draw(st.one_of(st.sampled_from([None, 64, 65, 100, 256, 300, 1200, 9000]), st.integers(24, 330)))
    sends = []
    for _ in range(draw(st.integers(1, 3))):
        plen = draw(st.one_of(st.sampled_from(LENGTHS), st.integers(0, 1200)))
        if mtu is not None and draw(st.booleans()):
            plen = max(0, mtu + draw(st.sampled_from([-60, -50, -45, -40, -1, 0, 1, 100])))
        send = {'plen': plen, 'seed': draw(st.integers(0, 99)), 'peer': draw(st.sampled_from([1, 1, 2, 3]))}
        if mtu is not None and draw(st.booleans()):
            # total encoded length placed exactly around the MTU
            send['rel'] = draw(st.sampled_from([-2, -1, 0, 1, 2, 3]))
        sends.append(send)
    ops = [[draw(st.sampled_from(['d', 'd', 'd', 'r', 'p', 'c'])), draw(st.integers(0, 255)), draw(st.integers(0, 255))]
           for _ in range(draw(st.integers(0, 30)))]
    queries = draw(st.lists(st.sampled_from(['queue', 'pop', 'pop-twice', 'pop-unknown', 'pop-file-bad']), max_size=6))
    poll = draw(st.one_of(st.booleans(), st.sampled_from([0, 1, 60000, 2 ** 31 - 1, 2 ** 31, 2 ** 40]).map(lambda v: {'interval': v}),
                          st.sampled_from(['dtn://s1/\x00', '', 'dtn://\u4e2d/']).map(lambda v: {'interval': 1000, 'nodeid': v})))
    restart = None
    if mtu is not None and draw(st.sampled_from([0, 0, 1])):
        # ids are reused only after far more time than a reassembly can take (ten minutes and more)
        restart = {'dup': draw(st.integers(0, 7)), 'gap_ms': draw(st.sampled_from([600000, 3600000])), 'same_len': draw(st.booleans()),
                   'order': draw(st.lists(st.integers(0, 9), max_size=6)), 'dup_last': draw(st.booleans())}
        sends[0] = {'plen': min(max(sends[0]['plen'], 2 * mtu + 10), 3000), 'seed': sends[0]['seed'], 'peer': 1}
    # one transfer whose segments arrive 40 s apart (less than the receiver's one-minute wait for the next segment,
    # the whole transfer takes minutes)
    gap_ms = draw(st.sampled_from([0, 0, 0, 40000])) if len(sends) == 1 else 0
    # injected fault: one sendmsg() call of the senders fails (network unreachable); the bundle it belonged to is lost,
    # every other bundle must still go out and arrive
    send_fail = draw(st.sampled_from([None, None, None, 0, 1, 2, 5])) if not restart else None
    return {'mtu': mtu, 'sends': sends, 'ops': ops, 'queries': queries, 'poll': poll, 'restart': restart, 'gap_ms': gap_ms,
            'send_fail': send_fail, 'recv_mtu': draw(st.sampled_from([None, None, None, 30, 64]))}


# --- execution ------------------------------------------------------------------------------

def parse_segment(data):
    ''' :return: ('bundle', data) or ('segment', xfer_id, total, offset, chunk) or ('other', first octet) '''
    if not data:
        return ('empty',)
    major = data[0] >> 5
    if major == 4:
        return ('bundle', bytes(data))
    if major == 5:
        item = cb.parse(bytes(data))
        if item.end != len(data):
            return ('other', 'trailing')
        for key, val in item.value:
            if key.value == 2 and val.major == 4 and len(val.value) == 4:
                xid, total, off, chunk = [x.value for x in val.value]
                return ('segment', xid, total, off, chunk)
        return ('extmap',)
    return ('other', data[0])


def execute(case, out):
    ''' Run one case; fills ``out`` with C13 verdicts; :return: trace dict for other oracles. '''
    reset()
    mtu = case['mtu']
    # (the receiver's own MTU is a limit for what it sends; what its peers send is segmented for their MTU)
    recv = Agent(RECV[0], mtu=case.get('recv_mtu'), listen_port=RECV[1], node_id='dtn://receiver/')
    if case.get('recv_mtu'):
        out.label('receiver-has-own-mtu')
    # sender 3 is a second agent on the host of sender 1 (another source port, its own transfer numbering from 0)
    senders = {1: Agent('10.0.0.1', mtu=mtu, node_id='dtn://s1/'), 2: Agent('10.0.0.2', mtu=mtu, node_id='dtn://s2/'),
               3: Agent('10.0.0.1', mtu=mtu, node_id='dtn://s3/')}
    originals = []        # (peer, bid, data)
    simudp.NET.fail_at = case.get('send_fail')
    for idx, send in enumerate(case['sends']):
        plen = int(send['plen'])
        data = make_bundle(plen, int(send['seed']) * 4 + idx)     # distinct content per send
        if send.get('rel') is not None and mtu is not None:
            for _ in range(3):
                diff = (mtu + int(send['rel'])) - len(data)
                if diff == 0 or plen + diff < 0:
                    break
                plen += diff
                data = make_bundle(plen, int(send['seed']) * 4 + idx)
        ag = senders[send['peer']]
        bid = ag.call('send_bundle_data', dbus.ByteArray(data), dbus.Dictionary({'address': RECV[0], 'port': RECV[1]}, signature='sv'))
        originals.append((send['peer'], bid, data))
    if case.get('poll'):
        # poll may be True or a dict with the listen interval the sender is configured with
        interval = case['poll'].get('interval', 60000) if isinstance(case['poll'], dict) else 60000
        poll_cfg = udpcl.config.PollConfig(address=RECV[0], port=RECV[1], interval_ms=int(interval))
        ag = senders[1]
        simudp.NET.current_host = ag.host
        simudp.NET.current_owner = ag.name
        odd_id = case['poll'].get('nodeid') if isinstance(case['poll'], dict) else None
        if odd_id is not None:
            ag.agent._config.node_id = odd_id     # what the polling peer calls itself
        with simloop.entered(ag.ctx):
            ag.agent._poll(poll_cfg, False)
    done = run_senders(list(senders.values()))
    if not done:
        out.fail('sender-never-finishes', 'the sender still had datagrams pending after the virtual time budget (mtu %s)' % mtu)
    net = simudp.NET
    # --- sender oracle -------------------------------------------------------------------
    multi_seg = False
    # the bundle whose datagram hit the injected send fault is not judged (it is lost); the others are, in full
    faulted = set()
    for hit in net.failed:
        kind = parse_segment(hit['data'])
        for peer, bid, data in originals:
            if hasattr(bid, 'exc') or senders[peer].name != hit['owner']:
                continue
            if (kind[0] == 'segment' and kind[1] == int(bid)) or (kind[0] == 'bundle' and kind[1] == data):
                faulted.add((peer, str(bid)))
    if net.failed:
        out.label('send-fault-injected')
    for peer, bid, data in list(originals):
        if (peer, str(bid)) in faulted:
            originals.remove((peer, bid, data))
    for peer, bid, data in originals:
        if tw.CallError and hasattr(bid, 'exc'):
            out.fail('send-call-error', 'send_bundle_data raised %r' % (bid,))
            continue
        mine = [d for d in net.sent_log if d.get('owner') == senders[peer].name]
        segs = []
        whole = []
        for dg in mine:
            kind = parse_segment(dg['data'])
            if kind[0] == 'segment' and kind[1] == int(bid):
                segs.append((dg, kind))
            elif kind[0] == 'bundle' and kind[1] == data:
                whole.append(dg)
        where = 'bundle %d octets, mtu %s, transfer %s' % (len(data), mtu, bid)
        # no datagram can be larger than UDP allows, whatever is (not) configured
        emtu = simudp.UDP_MAX if mtu is None else min(mtu, simudp.UDP_MAX)
        if len(data) <= emtu:
            # it fits (also when it is exactly as large as the MTU): one datagram
            if len(whole) != 1 or segs:
                out.fail('unsegmented-count', 'expected the bundle in one datagram, saw %d whole and %d segments (%s)' % (len(whole), len(segs), where))
            continue
        if whole and any(len(d['data']) > emtu for d in whole):
            out.fail('oversized-datagram', 'a %d-octet datagram was sent, limit %d (%s)' % (len(whole[0]['data']), emtu, where))
        if not segs:
            if not whole:
                out.fail('nothing-sent', 'no datagram at all was sent (%s)' % where)
            continue
        if len(segs) >= 3:
            multi_seg = True
        pos = 0
        rebuilt = b''
        for dg, (_k, _xid, total, off, chunk) in sorted(segs, key=lambda x: x[1][3]):
            if len(dg['data']) > emtu:
                out.fail('oversized-datagram', 'a %d-octet segment datagram was sent, limit %d (%s)' % (len(dg['data']), emtu, where))
            if total != len(data):
                out.fail('segment-total', 'segment announces total %d, bundle has %d (%s)' % (total, len(data), where))
            if off != pos:
                out.fail('segment-tiling', 'segment offsets do not tile the bundle: offset %d after %d (%s)' % (off, pos, where))
                break
            if len(chunk) == 0:
                out.fail('empty-segment', 'a segment without data was sent (%s)' % where)
                break
            pos = off + len(chunk)
            rebuilt += chunk
        else:
            if pos != len(data) or rebuilt != data:
                out.fail('segments-incomplete', 'segments carry %d of %d octets or differ (%s)' % (pos, len(data), where))
        started = [e for e in senders[peer].signals('send_bundle_started') if e['args'][0] == str(bid)]
        finished = [e for e in senders[peer].signals('send_bundle_finished') if e['args'][0] == str(bid)]
        if done and (len(started) != 1 or len(finished) != 1):
            out.fail('send-signals', 'send_bundle_started x%d, send_bundle_finished x%d for transfer %s' % (len(started), len(finished), bid))
    # --- arrival ---------------------------------------------------------------------------
    pending = list(net.inflight)
    del net.inflight[:]
    delivered = []
    model = {}            # (src, xfer id) -> covered offsets
    expect_done = 0
    order = []
    trace = dict(recv=recv, senders=senders, originals=originals, pops=[], queries=[])
    by_data = {data: (peer, bid) for peer, bid, data in originals}

    def feed(payload, src, count_model=True):
        ''' Deliver one datagram and compare the receiver with the coverage model. '''
        nonlocal expect_done
        before = len(recv.signals('recv_bundle_finished'))
        net.deliver(dict(src=src, dst=RECV, data=payload))
        recv.settle()
        after = len(recv.signals('recv_bundle_finished'))
        # reference: walk the messages of the datagram
        want = 0
        pos = 0
        buf = bytes(payload)
        while pos < len(buf):
            if buf[pos] == 0:
                break        # padding to the end of the datagram
            try:
                item = cb.parse(buf, pos)
            except cb.CborError:
                break
            msg = buf[pos:item.end]
            pos = item.end
            kind = parse_segment(msg)
            if kind[0] == 'bundle':
                want += 1
            elif kind[0] == 'segment':
                key = (src, kind[1])
                ent = model.setdefault(key, dict(total=kind[2], got=set(), data=bytearray(kind[2])))
                if ent['total'] != kind[2]:
                    continue
                ent['got'] |= set(range(kind[3], kind[3] + len(kind[4])))
                ent['data'][kind[3]:kind[3] + len(kind[4])] = kind[4]
                if len(ent['got']) == ent['total']:
                    want += 1
                    del model[key]
        if after - before != want:
            out.fail('finished-count', 'a datagram from %s with %d octets completed %d transfer(s) by the coverage model, '
                     'the receiver announced %d (mtu %s)' % (src, len(payload), want, after - before, mtu))

    idx = 0
    gap_ms = int(case.get('gap_ms') or 0) if len(case['sends']) == 1 else 0
    if gap_ms:
        out.label('slow-arrival')
        real_feed = feed

        def feed(payload, src, count_model=True):       # noqa: F811  (time passes before every segment that arrives)
            if parse_segment(bytes(payload))[0] == 'segment':
                simloop.advance_to(simloop.CLOCK.now_ms + gap_ms)
                recv.settle()
            return real_feed(payload, src, count_model)
    for op in case['ops']:
        kind, a, b = op
        if kind == 'r' and delivered:
            dg = delivered[a % len(delivered)]
            feed(dg['data'], dg['src'])
            continue
        if not pending:
            break
        dg = pending.pop(a % len(pending))
        order.append(dg)
        if kind == 'p' and len(dg['data']) + 1 + b % 9 <= simudp.UDP_MAX:
            feed(dg['data'] + b'\x00' * (1 + b % 9), dg['src'])
        elif kind == 'c' and pending:
            # (what is put into one datagram must still fit one datagram)
            other = [i for i, x in enumerate(pending) if x['src'] == dg['src'] and len(x['data']) + len(dg['data']) <= simudp.UDP_MAX]
            if other:
                dg2 = pending.pop(other[b % len(other)])
                order.append(dg2)
                delivered.append(dg2)
                feed(dg['data'] + dg2['data'], dg['src'])
            else:
                feed(dg['data'], dg['src'])
        else:
            feed(dg['data'], dg['src'])
        delivered.append(dg)
    while pending:
        dg = pending.pop(0)
        order.append(dg)
        delivered.append(dg)
        feed(dg['data'], dg['src'])
    # --- receiver oracle: queued items ------------------------------------------------------
    fin = recv.signals('recv_bundle_finished')
    queue = recv.call('recv_bundle_get_queue')
    trace['queries'].append(('queue', queue, [str(e['args'][0]) for e in fin], []))
    popped = []
    for query in case.get('queries', []):
        ids = [str(e['args'][0]) for e in fin if str(e['args'][0]) not in popped]
        if query == 'pop' and ids:
            res = recv.call('recv_bundle_pop_data', ids[0])
            trace['pops'].append((ids[0], res))
            popped.append(ids[0])
        elif query == 'pop-twice' and popped:
            res = recv.call('recv_bundle_pop_data', popped[0])
            if not hasattr(res, 'exc'):
                out.fail('second-pop-succeeds', 'popping an already popped transfer returned %d octets again' % len(res))
        elif query == 'pop-file-bad' and ids:
            # a pop into a file that cannot be created fails, and must leave the bundle where it is
            res = recv.call('recv_bundle_pop_file', ids[0], '/nonexistent-verif-directory/bundle.bin')
            if not hasattr(res, 'exc'):
                out.fail('pop-to-unwritable-file-succeeds', 'recv_bundle_pop_file into a missing directory did not fail')
        elif query == 'pop-unknown':
            res = recv.call('recv_bundle_pop_data', '424242')
            if not hasattr(res, 'exc'):
                out.fail('unknown-pop-succeeds', 'popping an unknown id returned %r' % (res,))
        elif query == 'queue':
            res = recv.call('recv_bundle_get_queue')
            want = sorted(i for i in [str(e['args'][0]) for e in fin] if i not in popped)
            if hasattr(res, 'exc') or sorted(str(x) for x in res) != want:
                out.fail('recv-queue-inconsistent', 'recv_bundle_get_queue() = %r, announced minus popped = %r' % (res, want))
    for ev in fin:
        bid = str(ev['args'][0])
        if bid in popped:
            data = next(res for (pid, res) in trace['pops'] if pid == bid)
        else:
            data = recv.call('recv_bundle_pop_data', bid)
        if hasattr(data, 'exc'):
            out.fail('pop-error', 'popping announced transfer %s failed: %r' % (bid, data))
            continue
        if bytes(data) not in by_data:
            out.fail('corrupted-or-partial-bundle', 'queued item %s (%d octets) equals none of the bundles sent' % (bid, len(data)))
        if ev['args'][1] != len(data):
            out.fail('finished-length', 'recv_bundle_finished announced %r octets, item has %d' % (ev['args'][1], len(data)))
    # every original must have arrived at least once (each datagram was delivered at least once)
    got = set()
    for _bid, res in trace['pops']:
        if not hasattr(res, 'exc'):
            got.add(bytes(res))
    for peer, bid, data in originals:
        if hasattr(bid, 'exc'):
            continue
        count = sum(1 for ev in fin if True)
    if done:
        if len(fin) < len([1 for _p, b, _d in originals if not hasattr(b, 'exc')]):
            out.fail('bundle-lost', '%d bundles were sent and every datagram delivered, only %d were queued' % (len(originals), len(fin)))
    extra_agents = []
    if case.get('restart'):
        extra_agents = _restart_phase(case, out, recv, senders, originals, net, mtu)
    for ag in [recv] + list(senders.values()) + extra_agents:
        for esc in ag.ctx.escapes:
            out.fail('escape:%s@%s' % (esc.exc_type, esc.frame), 'exception escaped a main-loop callback (%s): %s: %s'
                     % (esc.source, esc.exc_type, esc.exc_msg[:120]))
    in_order = all(order[i]['t_ms'] <= order[i + 1]['t_ms'] for i in range(len(order) - 1)) and \
        [id(x) for x in order] == [id(x) for x in net.sent_log if x in order]
    trace['multi_seg'] = multi_seg
    trace['reordered'] = not in_order
    out.label('udpcl', 'mtu:%s' % mtu, 'sends:%d' % len(originals))
    if multi_seg:
        out.label('>=3-segments')
    if not in_order:
        out.label('reordered')
    return trace


def _restart_phase(case, out, recv, senders, originals, net, mtu):
    ''' The peer behind sender 1 is restarted (C13: "interleaved with segments of other transfers or peers"): its
    transfer numbering starts again, from the same address and port.  Before that, the network repeats one segment of
    a transfer the receiver has long completed, and more time than any reassembly could take passes.  The receiver
    gets every segment of the new transfer once: it must queue nothing while octets are missing and then exactly
    the new bundle. '''
    spec = case['restart']
    first = [(bid, data) for peer, bid, data in originals if peer == 1 and not hasattr(bid, 'exc')]
    mine = [d for d in net.sent_log if d.get('owner') == senders[1].name]
    segs = [(d, parse_segment(d['data'])) for d in mine]
    segs = [(d, k) for d, k in segs if k[0] == 'segment' and first and k[1] == int(first[0][0])]
    if len(segs) < 2:
        out.label('restart-not-applicable')
        return []
    old_bid, old_data = first[0]
    src = segs[0][0]['src']
    # everything announced so far has been popped by the caller of this phase.  Repeats during the arrival phase may have
    # left reassembly state of their own (all arrivals happen at one instant of the virtual clock); a quiet period
    # first, so that this phase starts from what one late repeat alone leaves behind
    simloop.advance_to(simloop.CLOCK.now_ms + int(spec['gap_ms']))
    recv.settle()
    dup = segs[spec['dup'] % len(segs)][0]
    before = len(recv.signals('recv_bundle_finished'))
    net.deliver(dict(src=src, dst=RECV, data=dup['data']))
    recv.settle()
    simloop.advance_to(simloop.CLOCK.now_ms + int(spec['gap_ms']))
    recv.settle()
    if len(recv.signals('recv_bundle_finished')) != before:
        out.fail('repeat-after-completion-queues', 'one repeated segment of a completed transfer made the receiver announce a bundle')
    # the restarted peer: same host, same source port, transfer ids from 0 again
    for sock in list(net.bound.values()):
        if (sock.host, sock.port) == tuple(src):
            sock.close()
    fresh = Agent(senders[1].host, mtu=mtu, node_id='dtn://s1/')
    same_len = bool(spec['same_len'])
    plen = 0
    data = make_bundle(plen, 1000 + spec['dup'])
    want_len = len(old_data) if same_len else len(old_data) + 1 + spec['dup'] % 5
    for _ in range(4):
        diff = want_len - len(data)
        if diff == 0:
            break
        plen = max(0, plen + diff)
        data = make_bundle(plen, 1000 + spec['dup'])
    mark = len(net.sent_log)
    del net.inflight[:]
    bid = fresh.call('send_bundle_data', dbus.ByteArray(data),
                     dbus.Dictionary({'address': RECV[0], 'port': RECV[1], 'local_port': dbus.UInt16(src[1])}, signature='sv'))
    if hasattr(bid, 'exc'):
        out.fail('restart-send-error', 'send_bundle_data at the restarted peer raised %r' % (bid,))
        return [fresh]
    run_senders([fresh], max_ms=simloop.CLOCK.now_ms + 400000)
    new = net.sent_log[mark:]
    del net.inflight[:]
    kinds = [parse_segment(d['data']) for d in new]
    if not new or any(tuple(d['src']) != tuple(src) for d in new) or not all(k[0] == 'segment' for k in kinds) \
            or int(kinds[0][1]) != int(old_bid):
        out.label('restart-no-id-reuse')
        return [fresh]
    out.label('restart:same-length' if len(data) == len(old_data) else 'restart:other-length')
    order = list(range(len(new)))
    perm = []
    for pick in spec['order']:
        if order:
            perm.append(order.pop(pick % len(order)))
    perm += order
    if spec.get('dup_last'):
        # the segment that overlaps the repeated one arrives last
        for pos, idx in enumerate(perm):
            if kinds[idx][3] == parse_segment(dup['data'])[3]:
                perm.append(perm.pop(pos))
                break
    for num, idx in enumerate(perm, 1):
        net.deliver(dict(src=src, dst=RECV, data=new[idx]['data']))
        recv.settle()
        fin = recv.signals('recv_bundle_finished')[before:]
        if num < len(perm) and fin:
            out.fail('queued-while-octets-missing', 'after %d of %d segments of the new transfer (each delivered once) the receiver '
                     'already announced a bundle (restart after %d ms, one stale repeated segment of transfer %s)'
                     % (num, len(perm), spec['gap_ms'], old_bid))
            break
    fin = recv.signals('recv_bundle_finished')[before:]
    got = []
    for ev in fin:
        res = recv.call('recv_bundle_pop_data', str(ev['args'][0]))
        got.append(None if hasattr(res, 'exc') else bytes(res))
    if got != [data]:
        kind = 'nothing' if not got else ('a corrupted bundle' if len(got) == 1 else '%d bundles' % len(got))
        out.fail('restarted-peer-transfer-wrong', 'every segment of the restarted peer transfer %s was delivered once, the receiver '
                 'queued %s instead of exactly that bundle (%d octets, old transfer %d octets, gap %d ms)'
                 % (bid, kind, len(data), len(old_data), spec['gap_ms']))
    return [fresh]


def judge_dbus(case, out):
    ''' C18 view of a UDPCL history: marshalling of everything that crossed the boundary. '''
    trace = execute(case, out)
    for ev in dbus.RECORDER.events:
        if ev.get('error') and ev['kind'] == 'signal':
            out.fail('signal-does-not-marshal:%s' % ev['member'], 'signal %s%r does not fit its signature %r: %s'
                     % (ev['member'], ev['args'], ev['signature'], ev['error']))
        if ev.get('error') and ev['kind'] == 'return':
            out.fail('return-does-not-marshal:%s' % ev['member'], 'return value of %s does not fit %r: %s'
                     % (ev['member'], ev['signature'], ev['error']))
    for name in sorted(set(e['member'] for e in dbus.RECORDER.events if e['kind'] == 'signal')):
        out.label('signal:' + name)
    out.nontrivial = bool(trace['multi_seg'])
    return trace
