''' Helpers for the BPSec checks (C03, C12, C16): key provisioning on real
agents, reference-built security blocks and the catalogue of alterations. '''
import copy
import re

from . import boot, ref9171 as r, refcose as rc, cborpull as cb

boot.bp()

KEYS = {
    'k-mac-1': bytes(range(1, 33)),
    'k-mac-2': bytes(range(101, 133)),
    'k-enc-1': bytes(range(33, 65)),
    'k-enc-2': bytes(range(133, 165)),
    'k-enc-16': bytes(range(65, 81)),
    'k-kek-1': bytes(range(201, 233)),
    '': bytes(range(50, 82)),       # a key whose identifier is the empty byte string (a legal COSE kid)
}
MAC_ALGS = {5: 'HMAC256', 6: 'HMAC384', 7: 'HMAC512'}
ENC_ALGS = {1: 'A128GCM', 3: 'A256GCM'}


def cose_key(kid, keybytes, alg_id, ops):
    from pycose.keys import SymmetricKey, keyparam, keyops
    from pycose import algorithms
    algs = {5: algorithms.HMAC256, 6: algorithms.HMAC384, 7: algorithms.HMAC512,
            1: algorithms.A128GCM, 3: algorithms.A256GCM, -5: algorithms.A256KW}
    opmap = {'mac': [keyops.MacCreateOp, keyops.MacVerifyOp], 'enc': [keyops.EncryptOp, keyops.DecryptOp],
             'wrap': [keyops.WrapOp, keyops.UnwrapOp]}
    return SymmetricKey(k=keybytes, optional_params={keyparam.KpKid: kid.encode('ascii'), keyparam.KpAlg: algs[alg_id],
                                                     keyparam.KpKeyOps: opmap[ops]})


def give_key(node, kid, alg_id, ops, keybytes=None):
    key = cose_key(kid, keybytes if keybytes is not None else KEYS[kid], alg_id, ops)
    node.bpsec.sym_key_store[key.kid] = key
    return key


def add_policy(node, sec_type, kid, target_types, content_alg=None, ivs=None, content_key=None):
    from bp.app.bpsec import SecAssociation, SecOperation
    kwargs = dict(sec_type=sec_type, role='source', priv_key_id=kid.encode('ascii'))
    if content_alg is not None:
        kwargs['content_alg'] = content_alg
    if ivs is not None:
        kwargs['content_iv'] = list(ivs)
    if content_key is not None:
        kwargs['content_key'] = content_key
    node.bpsec.sec_assoc.append(SecAssociation(src_pat=re.compile('.*'), dst_pat=re.compile('.*'),
                                               tgt_blk_types=list(target_types), templates=[SecOperation(**kwargs)]))


def ref_keys(names, overrides=None):
    ''' kid(bytes) -> key bytes, as the independent verifier wants them. '''
    out = {}
    for name in names:
        out[name.encode('ascii')] = (overrides or {}).get(name, KEYS[name])
    return out


def fresh_block_num(bundle):
    used = {b['num'] for b in bundle['blocks']}
    num = 2
    while num in used:
        num += 1
    return num


def _params(scope, addl_protected, addl_unprotected):
    ''' scope None = no AAD-scope parameter at all: the default scope {0:1,-1:1,-2:1} applies. '''
    params = []
    if scope is not None:
        params.append([5, dict(scope)])
    if addl_protected:
        params.append([3, addl_protected])
    if addl_unprotected:
        params.append([4, addl_unprotected])
    return params


def ref_add_bib(bundle, target_nums, kid, alg, scope, addl_protected=b'', src=None, sec_flags=0, sec_crc=0, addl_unprotected=b''):
    ''' Reference security source: append a BIB (COSE_Mac0 per target) in front of the payload block. '''
    bundle = copy.deepcopy(bundle)
    src = src or bundle['primary']['src']
    params = _params(scope, addl_protected, addl_unprotected)
    sec_blk = dict(type=11, num=fresh_block_num(bundle), flags=sec_flags, crc_type=sec_crc, data='')
    asb = {'targets': list(target_nums), 'ctx': 3, 'flags': 1 if params else 0, 'src': src, 'params': params or None, 'results': []}
    for num in target_nums:
        target = next(b for b in bundle['blocks'] if b['num'] == num)
        aad = rc.external_aad(bundle, sec_blk, target, asb)
        msg = rc.mac0_create(alg, KEYS[kid], kid.encode('ascii'), aad, bytes.fromhex(target['data']))
        asb['results'].append([[rc.TAG_MAC0, msg]])
    sec_blk['data'] = rc.encode_asb(asb)
    bundle['blocks'].insert(len(bundle['blocks']) - 1, sec_blk)
    return bundle


def ref_add_bcb(bundle, target_nums, kid, alg, scope, ivs, addl_protected=b'', src=None, addl_unprotected=b'', sec_flags=1):
    ''' Reference security source: encrypt the targets (COSE_Encrypt0) and append the BCB. '''
    bundle = copy.deepcopy(bundle)
    src = src or bundle['primary']['src']
    params = _params(scope, addl_protected, addl_unprotected)
    sec_blk = dict(type=12, num=fresh_block_num(bundle), flags=sec_flags, crc_type=0, data='')
    asb = {'targets': list(target_nums), 'ctx': 3, 'flags': 1 if params else 0, 'src': src, 'params': params or None, 'results': []}
    for num, iv in zip(target_nums, ivs):
        target = next(b for b in bundle['blocks'] if b['num'] == num)
        aad = rc.external_aad(bundle, sec_blk, target, asb)
        msg, ctext = rc.enc0_create(alg, KEYS[kid], kid.encode('ascii'), iv, aad, bytes.fromhex(target['data']))
        target['data'] = ctext.hex()
        asb['results'].append([[rc.TAG_ENC0, msg]])
    sec_blk['data'] = rc.encode_asb(asb)
    bundle['blocks'].insert(len(bundle['blocks']) - 1, sec_blk)
    return bundle


def edit_asb(bundle, sec_type, func):
    ''' Apply ``func(asb)`` to the first security block of the given type and re-encode it. '''
    bundle = copy.deepcopy(bundle)
    blk = next(b for b in bundle['blocks'] if b['type'] == sec_type)
    asb = rc.parse_asb(blk['data'])
    func(asb)
    asb.pop('src_raw', None)
    blk['data'] = rc.encode_asb(asb)
    return bundle


def flip_in_result(asb, target_index, what, octet):
    ''' Flip one bit inside the COSE message of a result: what in {'tag', 'protected', 'kid', 'iv'}. '''
    rid, enc = asb['results'][target_index][0]
    msg = rc._py(cb.parse(bytes(enc)))
    if what == 'tag':
        val = bytearray(msg[-1])
        val[octet % len(val)] ^= 0x01
        msg[-1] = bytes(val)
    elif what == 'protected':
        val = bytearray(msg[0])
        val[octet % len(val)] ^= 0x01
        msg[0] = bytes(val)
    elif what == 'kid':
        msg[1] = dict(msg[1])
        kid = bytearray(msg[1][rc.HDR_KID])
        if kid:
            kid[octet % len(kid)] ^= 0x01
        else:
            kid = bytearray(b'x')       # an empty identifier is altered by giving it an octet
        msg[1][rc.HDR_KID] = bytes(kid)
    elif what == 'iv':
        msg[1] = dict(msg[1])
        iv = bytearray(msg[1][rc.HDR_IV])
        iv[octet % len(iv)] ^= 0x01
        msg[1][rc.HDR_IV] = bytes(iv)
    asb['results'][target_index][0] = [rid, cb.enc(msg)]


def alter(bundle, alteration, sec_type=11):
    ''' Apply one named alteration to a reference bundle.  :return: altered copy (CRCs are recomputed on encoding). '''
    kind = alteration[0]
    out = copy.deepcopy(bundle)
    pri = out['primary']
    if kind == 'pri-flags':
        pri['flags'] ^= r.FLAG_USER_ACK
    elif kind == 'pri-dest':
        pri['dest'] = ['dtn', '//dst/other']
    elif kind == 'pri-src':
        pri['src'] = ['dtn', '//impostor/app']
    elif kind == 'pri-rpt':
        pri['rpt'] = ['dtn', '//elsewhere/'] if pri['rpt'] != ['dtn', '//elsewhere/'] else ['dtn', '//reports/']
    elif kind == 'pri-time':
        pri['ts'] = [pri['ts'][0] + 1, pri['ts'][1]]
    elif kind == 'pri-seq':
        pri['ts'] = [pri['ts'][0], pri['ts'][1] + 1]
    elif kind == 'pri-lifetime':
        pri['lifetime'] += 1
    elif kind == 'pri-crc-type':
        pri['crc_type'] = (pri['crc_type'] + 1) % 3
    elif kind in ('tgt-data', 'tgt-flags', 'tgt-type', 'tgt-num', 'tgt-crc-type'):
        blk = next(b for b in out['blocks'] if b['num'] == alteration[1])
        if kind == 'tgt-data':
            data = bytearray(bytes.fromhex(blk['data']))
            if data:
                data[alteration[2] % len(data)] ^= 1 << (alteration[2] % 8)
            else:
                data = bytearray(b'\x00')
            blk['data'] = bytes(data).hex()
        elif kind == 'tgt-flags':
            blk['flags'] ^= r.BLKFLAG_STATUS_IF_FAIL
        elif kind == 'tgt-type':
            blk['type'] = blk['type'] + 1 if blk['type'] >= 192 else blk['type']
        elif kind == 'tgt-num':
            if blk['num'] != 1:
                blk['num'] = max(b['num'] for b in out['blocks']) + 5
        elif kind == 'tgt-crc-type':
            blk['crc_type'] = (blk['crc_type'] + 1) % 3
    elif kind in ('other-data', 'other-flags'):
        blk = next((b for b in out['blocks'] if b['num'] == alteration[1]), None)
        if blk is not None:
            if kind == 'other-data':
                blk['data'] = (bytes.fromhex(blk['data']) + b'\x01').hex()
            else:
                blk['flags'] ^= r.BLKFLAG_STATUS_IF_FAIL
    elif kind == 'sec-flags':
        blk = next(b for b in out['blocks'] if b['type'] == sec_type)
        blk['flags'] ^= r.BLKFLAG_STATUS_IF_FAIL
    elif kind == 'sec-source':
        out = edit_asb(out, sec_type, lambda asb: asb.__setitem__('src', ['dtn', '//other-source/']))
    elif kind == 'sec-source-form':
        # the security source written in another form: a dtn node ID without its final slash (one octet less on the
        # wire; an implementation that normalises EIDs when decoding reads the same node)
        def func(asb):
            src = asb['src']
            if src[0] == 'dtn' and isinstance(src[1], str) and src[1].endswith('/') and src[1].count('/') == 3:
                asb['src'] = ['dtn', src[1][:-1]]
            else:
                asb['src'] = ['dtn', '//other-source/']
        out = edit_asb(out, sec_type, func)
    elif kind == 'sec-scope':
        def func(asb):
            for prm in asb['params'] or []:
                if prm[0] == 5:
                    scope = dict(prm[1])
                    if not scope:
                        scope[-1] = 1      # (an empty scope gets an entry)
                    else:
                        key = sorted(scope)[alteration[1] % len(scope)]
                        scope[key] ^= 0x02 if key not in (0, -2) else 0x01
                    prm[1] = scope
        out = edit_asb(out, sec_type, func)
    elif kind == 'sec-scope-retype':
        # the AAD-scope parameter turned into a parameter of an unassigned type: the default scope applies
        def func(asb):
            for prm in asb['params'] or []:
                if prm[0] == 5:
                    prm[0] = 7
        out = edit_asb(out, sec_type, func)
    elif kind == 'sec-scope-drop':
        def func(asb):
            if asb['params']:
                asb['params'] = [prm for prm in asb['params'] if prm[0] != 5]
                if not asb['params']:
                    asb['params'] = None
                    asb['flags'] &= ~1
        out = edit_asb(out, sec_type, func)
    elif kind == 'sec-addl-protected':
        def func(asb):
            if asb['params'] is None:
                asb['params'] = []
                asb['flags'] |= 1
            for prm in asb['params']:
                if prm[0] == 3:
                    prm[1] = bytes(prm[1]) + b'\x00' if not prm[1] else bytes([prm[1][0] ^ 1]) + bytes(prm[1][1:])
                    return
            asb['params'].append([3, cb.enc({})])
        out = edit_asb(out, sec_type, func)
    elif kind == 'res-attach':
        # two coordinated changes: the original content of a target is written into the (normally nil) payload /
        # ciphertext slot of its COSE message, and the target block itself is altered
        holder = {}

        def func(asb):
            idx = alteration[1] % len(asb['targets'])
            holder['num'] = asb['targets'][idx]
            tgt = next(b for b in out['blocks'] if b['num'] == holder['num'])
            rid, enc = asb['results'][idx][0]
            msg = rc._py(cb.parse(bytes(enc)))
            msg[2] = bytes.fromhex(tgt['data'])
            asb['results'][idx][0] = [rid, cb.enc(msg)]
        out = edit_asb(out, sec_type, func)
        tgt = next(b for b in out['blocks'] if b['num'] == holder['num'])
        data = bytearray(bytes.fromhex(tgt['data']) or b'\x00')
        data[alteration[2] % len(data)] ^= 1 << (alteration[2] % 8)
        tgt['data'] = bytes(data).hex()
    elif kind == 'res-drop':
        # the MAC / signature removed: the result list of the last target is taken off the results array
        out = edit_asb(out, sec_type, lambda asb: asb['results'].pop())
    elif kind == 'res-none':
        # the result list of one target left in place but emptied
        out = edit_asb(out, sec_type, lambda asb: asb['results'].__setitem__(alteration[1] % len(asb['results']), []))
    elif kind == 'recipient-extra':
        # one more recipient in every COSE_Encrypt result, naming a key-encryption key the receiver does not hold, in
        # front of or behind the genuine one (the recipient list is not authenticated: any one recipient that works is
        # enough).  Results of other kinds are left as they are.
        def func(asb):
            for results in asb['results']:
                rid, enc = results[0]
                if rid != rc.TAG_ENC:
                    continue
                msg = rc._py(cb.parse(bytes(enc)))
                bogus = [b'', {rc.HDR_ALG: -5, rc.HDR_KID: b'k-nobody'}, bytes(range(40))]
                msg[3] = ([bogus] + list(msg[3])) if alteration[2] % 2 == 0 else (list(msg[3]) + [bogus])
                results[0] = [rid, cb.enc(msg)]
        out = edit_asb(out, sec_type, func)
    elif kind in ('res-tag', 'res-protected', 'res-kid', 'res-iv'):
        out = edit_asb(out, sec_type, lambda asb: flip_in_result(asb, alteration[1], kind[4:], alteration[2]))
    else:
        raise ValueError(kind)
    return out


_PKI = {}


def pki(node_id, curve_name='p256', which=0, identity='own'):
    ''' (CA certificate, end-entity certificate, end-entity private key) from the committed fixture file (fixed test
    keys: runs do not depend on fresh key material).  identity: 'own' = the certificate names ``node_id`` as bundle EID,
    'none' = it carries no bundle EID at all, 'other' = it names dtn://other/ (all three issued by the same CA). '''
    key = (node_id, curve_name, which, identity)
    if key in _PKI:
        return _PKI[key]
    import json
    import os
    from cryptography import x509
    from cryptography.hazmat.primitives import serialization
    path = os.path.join(os.path.dirname(os.path.dirname(os.path.abspath(__file__))), 'fixtures', 'pki.json')
    entry = json.load(open(path))['%s-%d' % (curve_name, which)]
    if entry['node_id'] != node_id:
        raise ValueError('fixture PKI names %s' % entry['node_id'])
    sfx = {'own': '', 'none': '_noid', 'other': '_other'}[identity]
    _PKI[key] = (x509.load_pem_x509_certificate(entry['ca'].encode()), x509.load_pem_x509_certificate(entry['ee' + sfx].encode()),
                 serialization.load_pem_private_key(entry['ee%s_key' % sfx].encode(), None))
    return _PKI[key]


def generate_pki(node_id, curve_name='p256', which=0, short_coordinate=False, no_ski=False):
    ''' How fixtures/pki.json is made (tools/mkpki.py): one CA and three end-entity certificates. '''
    import datetime
    from cryptography import x509
    from cryptography.hazmat.primitives import hashes, serialization as ser
    from cryptography.hazmat.primitives.asymmetric import ec
    curve = {'p256': ec.SECP256R1(), 'p384': ec.SECP384R1()}[curve_name]
    ca_key = ec.generate_private_key(curve)
    ca_name = x509.Name([x509.NameAttribute(x509.oid.NameOID.COMMON_NAME, 'verif CA %d' % which)])
    nbefore, nafter = datetime.datetime(2020, 1, 1), datetime.datetime(2040, 1, 1)
    ca = (x509.CertificateBuilder().subject_name(ca_name).issuer_name(ca_name).public_key(ca_key.public_key()).serial_number(10 + which)
          .not_valid_before(nbefore).not_valid_after(nafter)
          .add_extension(x509.BasicConstraints(ca=True, path_length=1), critical=True)
          .add_extension(x509.KeyUsage(False, False, False, False, False, True, True, False, False), critical=False)
          .add_extension(x509.SubjectKeyIdentifier.from_public_key(ca_key.public_key()), critical=False)
          .add_extension(x509.AuthorityKeyIdentifier.from_issuer_public_key(ca_key.public_key()), critical=False)
          .sign(ca_key, hashes.SHA256()))
    out = {'node_id': node_id, 'ca': ca.public_bytes(ser.Encoding.PEM).decode()}
    for serial, (sfx, eid) in enumerate((('', node_id), ('_noid', None), ('_other', 'dtn://other/'))):
        ee_key = ec.generate_private_key(curve)
        while short_coordinate and sfx == '':
            # a key whose public point has a coordinate with a leading zero octet (about one key in 128 has)
            nums = ee_key.public_key().public_numbers()
            if min(nums.x.bit_length(), nums.y.bit_length()) <= curve.key_size - 8:
                break
            ee_key = ec.generate_private_key(curve)
        builder = (x509.CertificateBuilder().subject_name(x509.Name([x509.NameAttribute(x509.oid.NameOID.COMMON_NAME, 'end-entity' + sfx)]))
                   .issuer_name(ca.issuer).public_key(ee_key.public_key()).serial_number(20 + 10 * which + serial)
                   .not_valid_before(nbefore).not_valid_after(nafter)
                   .add_extension(x509.BasicConstraints(ca=False, path_length=None), critical=True)
                   .add_extension(x509.KeyUsage(True, False, False, False, False, False, False, False, False), critical=False)
                   .add_extension(x509.ExtendedKeyUsage([x509.oid.ObjectIdentifier('1.3.6.1.5.5.7.3.35')]), critical=False)
                   .add_extension(x509.AuthorityKeyIdentifier.from_issuer_public_key(ca_key.public_key()), critical=False))
        if not no_ski:
            # (RFC 5280 requires the subject key identifier of CA certificates only)
            builder = builder.add_extension(x509.SubjectKeyIdentifier.from_public_key(ee_key.public_key()), critical=False)
        if eid is not None:
            text = eid.encode('ascii')
            other = x509.OtherName(x509.oid.ObjectIdentifier('1.3.6.1.5.5.7.8.11'), bytes([0x16, len(text)]) + text)
            builder = builder.add_extension(x509.SubjectAlternativeName([other]), critical=False)
        ee = builder.sign(ca_key, hashes.SHA256())
        out['ee' + sfx] = ee.public_bytes(ser.Encoding.PEM).decode()
        out['ee%s_key' % sfx] = ee_key.private_bytes(ser.Encoding.PEM, ser.PrivateFormat.PKCS8, ser.NoEncryption()).decode()
    return out


def give_signing_identity(node, node_id, curve_name='p256', identity='own'):
    from pycose.keys import keyops
    ca, ee, ee_key = pki(node_id, curve_name, 0, identity)
    ctx = node.bpsec
    ctx._ca_certs = [ca]
    ctx._cert_chain = [ee]
    key = ctx.extract_cose_key(ee_key)
    key.kid = b'k-sign'
    key.key_ops = [keyops.SignOp]
    ctx.asym_key_store[key.kid] = key
    return key


def pem_files(node_id, curve_name='p256', which=0):
    ''' The fixture PKI as files, the way a deployment configures BPSec (sign_key_file, sign_cert_file, verify_ca_file).
    :return: (directory to remove afterwards, dict of paths) '''
    import json
    import os
    import tempfile
    path = os.path.join(os.path.dirname(os.path.dirname(os.path.abspath(__file__))), 'fixtures', 'pki.json')
    entry = json.load(open(path))['%s-%d' % (curve_name, which)]
    if entry['node_id'] != node_id:
        raise ValueError('fixture PKI names %s' % entry['node_id'])
    tmpdir = tempfile.mkdtemp(prefix='verif-pki-')
    paths = {}
    for name, key in (('ca', 'ca'), ('cert', 'ee'), ('key', 'ee_key')):
        paths[name] = os.path.join(tmpdir, name + '.pem')
        with open(paths[name], 'w') as outfile:
            outfile.write(entry[key])
    return tmpdir, paths


def trust(node, node_id, curve_name='p256', which=0):
    ''' The receiver trusts the CA number ``which`` (0 = the one that issued the source certificate). '''
    node.bpsec._ca_certs = [pki(node_id, curve_name, which)[0]]
