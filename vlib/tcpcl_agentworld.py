''' One real tcpcl.agent.Agent with several contacts, each to its own scripted
(cooperative) peer: what Agent.shutdown() and Agent.stop() do to contacts in
different states (C09, agent level).

A contact is put into one of the states

  connecting   nothing received from the peer yet
  negotiating  contact headers exchanged, no SESS_INIT from the peer
  established  session up, nothing queued
  transfer     session up, an own three-segment bundle queued, the peer has not acknowledged anything
  ending       session up, terminate() already called on this contact, the peer has not answered
  refused      as transfer; the peer will answer the completely sent bundle with XFER_REFUSE instead of acknowledging it
  refused-late as refused, but the peer writes its XFER_REFUSE only after its SESS_TERM reply (the disposition of the
               last outstanding transfer is then the last thing the endpoint hears: it has to close on it)

then the action is applied to the agent, and from then on every peer cooperates
fully: it completes the handshake if the endpoint still wants it, acknowledges
every segment, answers SESS_TERM with a reply and closes its socket only after
the endpoint closed first (so that "closes without further action" is the
endpoint's own doing).
'''
import dbus

from . import ref9174 as r, simloop, simnet, tcpcl_world as tw

STATES = ['connecting', 'negotiating', 'established', 'transfer', 'ending', 'refused', 'refused-late']
REFUSING = ('refused', 'refused-late')
# one more, used with active contacts only: the peer has answered the contact header, and its SESS_INIT together with the
# first segment of a transfer of its own are on their way (not yet delivered) when the action is applied
PEER_AHEAD = 'peer-ahead'
BUNDLE = bytes(range(60, 85))      # 25 octets, three segments at the peer's segment MRU of 10


class Contact(object):
    def __init__(self, index, state, passive):
        self.index = index
        self.state = state
        self.passive = passive          # the real endpoint is the passive side
        self.link = simnet.Link(None, None, addr_a='10.0.1.%d' % (index + 1), addr_b='10.0.2.%d' % (index + 1))
        if passive:
            self.real_sock, self.peer_sock = self.link.sock_b, self.link.sock_a
            self.real_pipe, self.peer_pipe = self.link.ba, self.link.ab
        else:
            self.real_sock, self.peer_sock = self.link.sock_a, self.link.sock_b
            self.real_pipe, self.peer_pipe = self.link.ab, self.link.ba
        self.hdl = None
        self.sent_ch = self.sent_init = self.replied = False
        self.acked = 0
        self.own_id = None
        self.level = 'silent'            # silent | ch | full
        self.was_established_at_action = False
        self.hold = False                # the network holds back what the peer has written
        self.ahead = None                # peer-ahead: 'started' after the START segment, 'done' after the END segment

    def wire(self):
        return r.parse_stream(bytes(self.real_pipe.log), expect_contact=True)[0]

    def peer_send(self, msg):
        if self.peer_sock.closed:
            return False
        try:
            self.peer_sock.send(r.encode(msg))
            return True
        except OSError:
            return False

    def cooperate(self):
        ''' One round of peer behaviour at the current level.  :return: True if something was sent. '''
        if self.level == 'silent' or self.peer_sock.closed:
            return False
        if self.level == 'frozen':
            # a hung peer: says nothing more, but its socket follows when the endpoint closes
            if self.real_sock.closed:
                self.peer_sock.close()
                return True
            return False
        did = False
        msgs = self.wire()
        real_ch = any(m['t'] == 'CH' for m in msgs)
        real_init = any(m['t'] == 'SESS_INIT' for m in msgs)
        if not self.sent_ch and (self.passive or real_ch):
            # the peer is the active side when the real endpoint is passive: it speaks first
            self.sent_ch = self.peer_send({'t': 'CH', 'magic': r.MAGIC.hex(), 'version': 4, 'flags': 0})
            did = True
        if self.level == 'full':
            if self.sent_ch and real_ch and not self.sent_init and (self.passive or real_init):
                self.sent_init = self.peer_send({'t': 'SESS_INIT', 'keepalive': 0, 'segment_mru': 10, 'transfer_mru': 10 ** 6,
                                                 'nodeid': 'dtn://peer%d/' % self.index, 'ext': []})
                did = True
            segs = [m for m in msgs if m['t'] == 'XFER_SEGMENT']
            cum = {}
            for idx, seg in enumerate(segs):
                if seg['flags'] & 2:
                    cum[seg['id']] = 0
                cum[seg['id']] = cum.get(seg['id'], 0) + len(seg['data']) // 2
                if idx >= self.acked and self.state == 'refused-late' and seg['flags'] & 1 and not self.replied:
                    break       # the refusal waits until the peer has answered the endpoint's SESS_TERM
                if idx >= self.acked and self.state in REFUSING:
                    if seg['flags'] & 1:
                        self.peer_send({'t': 'XFER_REFUSE', 'reason': 2, 'id': seg['id']})
                    self.acked = idx + 1
                    did = True
                elif idx >= self.acked:
                    self.peer_send({'t': 'XFER_ACK', 'flags': seg['flags'], 'id': seg['id'], 'length': cum[seg['id']]})
                    self.acked = idx + 1
                    did = True
            if self.ahead == 'started':
                self.ahead = 'done'
                self.peer_send({'t': 'XFER_SEGMENT', 'flags': 1, 'id': 77, 'data': b'def'.hex()})
                did = True
            if any(m['t'] == 'SESS_TERM' for m in msgs) and not self.replied:
                self.replied = True
                self.peer_send({'t': 'SESS_TERM', 'flags': 1, 'reason': 0})
                did = True
        # the peer closes only after the endpoint did
        if self.real_sock.closed and not self.peer_sock.closed:
            self.peer_sock.close()
            did = True
        return did


class AgentWorld(object):
    def __init__(self, specs, idle_time=0, hang=()):
        ''' specs: list of [state, passive]; hang: indices of contacts whose peer stops taking part (connection
        stays open, nothing is sent any more) from the moment the action is applied '''
        simloop.reset()
        dbus.RECORDER.reset()
        self.hang = set(hang)
        self.cfg = tw.make_config('dtn://real/', idle_time=idle_time)
        self.end = tw.Endpoint('A', self.cfg)
        self.stops = []
        self.end.agent.set_on_stop(lambda: self.stops.append(simloop.CLOCK.now_ms))
        self.contacts = []
        for index, (state, passive) in enumerate(specs):
            con = Contact(index, state, bool(passive))
            with simloop.entered(self.end.ctx):
                if con.passive:
                    con.hdl = self.end.agent._bind_handler(config=self.cfg, sock=con.real_sock, fromaddr=('10.0.1.%d' % (index + 1), 40000))
                else:
                    con.hdl = self.end.agent._bind_handler(config=self.cfg, sock=con.real_sock, toaddr=('10.0.2.%d' % (index + 1), 4556))
                con.hdl.start()
            self.contacts.append(con)

    def pump(self, rounds=400):
        ''' Deliver everything, run the endpoint, let the peers act; until nothing moves. '''
        for _ in range(rounds):
            moved = False
            for con in self.contacts:
                if con.real_pipe.deliver():
                    moved = True
                if not con.hold and con.peer_pipe.deliver():
                    moved = True
            for _i in range(50):
                if not self.end.ctx.iterate():
                    break
                moved = True
            for con in self.contacts:
                if con.cooperate():
                    moved = True
            if not moved:
                return True
        return False

    def call_hdl(self, con, member, *args):
        return tw.dbuscall(self.end.ctx, con.hdl, member, *args)

    def call_agent(self, member, *args):
        return tw.dbuscall(self.end.ctx, self.end.agent, member, *args)

    def prepare(self):
        ''' Bring every contact into its state. '''
        for con in self.contacts:
            con.level = {'connecting': 'silent', 'negotiating': 'ch', PEER_AHEAD: 'ch'}.get(con.state, 'full')
        self.pump()
        for con in self.contacts:
            if con.state == PEER_AHEAD:
                con.hold = True
                con.sent_init = True
                con.peer_send({'t': 'SESS_INIT', 'keepalive': 0, 'segment_mru': 10, 'transfer_mru': 10 ** 6,
                               'nodeid': 'dtn://peer%d/' % con.index, 'ext': []})
                con.peer_send({'t': 'XFER_SEGMENT', 'flags': 2, 'id': 77, 'ext': [], 'data': b'abc'.hex()})
                con.ahead = 'started'
        for con in self.contacts:
            if con.state in ('transfer',) + REFUSING:
                con.level = 'ch'      # stop acknowledging
                con.own_id = self.call_hdl(con, 'send_bundle_data', dbus.ByteArray(BUNDLE))
            elif con.state == 'ending':
                con.level = 'ch'      # do not answer the SESS_TERM yet
                self.call_hdl(con, 'terminate', dbus.Byte(0))
        self.pump()
        for con in self.contacts:
            con.was_established_at_action = con.hdl._state in ('established', 'ending')

    def late_accept(self):
        ''' A peer connects to a listening socket of the agent now (Agent._accept is the real callback of the listener). '''
        index = len(self.contacts)
        con = Contact(index, 'late', True)
        addr = ('10.0.1.%d' % (index + 1), 40000)

        class Listener(object):
            def accept(self_inner):
                return con.real_sock, addr
        before = list(self.end.agent._handlers)
        with simloop.entered(self.end.ctx):
            self.end.agent._accept(Listener())
        new = [h for h in self.end.agent._handlers if h not in before]
        con.hdl = new[0] if new else None
        con.level = 'full'
        self.contacts.append(con)
        return con

    def late_connect(self):
        ''' The user (or the BP adaptor, for a bundle that needs a session) asks the agent to connect now:
        D-Bus method Agent.connect. '''
        import tcpcl.agent
        index = len(self.contacts)
        con = Contact(index, 'late', False)
        addr = '10.0.2.%d' % (index + 1)

        class Facade(object):
            def socket(self_inner, *_a, **_k):
                con.real_sock.connect = lambda _addr: None
                return con.real_sock

            def __getattr__(self_inner, name):
                import socket
                return getattr(socket, name)
        saved = tcpcl.agent.socket
        tcpcl.agent.socket = Facade()
        try:
            res = self.call_agent('connect', addr, dbus.UInt16(4556))
        finally:
            tcpcl.agent.socket = saved
        if hasattr(res, 'exc'):
            con.refused = res
            con.hdl = None
            con.real_sock.close()
        else:
            con.refused = None
            con.hdl = self.end.agent.handler_for_path(res)
        con.level = 'full'
        self.contacts.append(con)
        return con

    def release(self):
        for con in self.contacts:
            con.level = 'frozen' if con.index in self.hang else 'full'
            con.hold = False
        return self.pump()

    def advance(self, ms):
        ''' Let virtual time pass, firing the endpoint's timers in order. '''
        target = simloop.CLOCK.now_ms + ms
        while True:
            due = self.end.ctx.next_due()
            if due is None or due > target:
                break
            simloop.advance_to(max(due, simloop.CLOCK.now_ms))
            self.pump()
        simloop.advance_to(target)
        return self.pump()

    def escapes(self):
        return list(self.end.ctx.escapes)
