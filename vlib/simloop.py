''' Virtual GLib main contexts: the schedule is data (DESIGN.md section 2.1).

One Context per simulated process ("endpoint").  An *iteration* of a context
mirrors g_main_context_iteration(): readiness of all sources is evaluated
once, then every ready source of the numerically lowest (= most urgent)
ready priority is dispatched in attachment order; a source made ready by an
earlier dispatch waits for the next iteration and a source removed meanwhile
is skipped.  IO watches and timeouts have PRIORITY_DEFAULT (0), idle sources
PRIORITY_DEFAULT_IDLE (200): an idle callback never runs while an IO/timeout
source of the same context is ready.

A callback that raises is recorded in ``ctx.escapes`` and its source is
dropped, as PyGObject does (it prints the traceback and returns FALSE).
Time is a single global integer millisecond counter.
'''
import itertools
import traceback

PRIO_DEFAULT = 0
PRIO_IDLE = 200


class Clock(object):
    def __init__(self):
        self.now_ms = 0


CLOCK = Clock()
_ids = itertools.count(1)
_all_sources = {}   # id -> (ctx, Source)
_stack = []
_default = None


class Source(object):
    __slots__ = ('sid', 'kind', 'prio', 'cb', 'args', 'chan', 'cond', 'due', 'interval', 'alive')

    def __init__(self, kind, prio, cb, args):
        self.sid = next(_ids)
        self.kind = kind
        self.prio = prio
        self.cb = cb
        self.args = args
        self.chan = None
        self.cond = 0
        self.due = None
        self.interval = None
        self.alive = True

    def describe(self):
        name = getattr(self.cb, '__qualname__', None) or getattr(self.cb, '__name__', repr(self.cb))
        return '%s:%s' % (self.kind, name)


class Escape(object):
    ''' An exception that propagated out of a main-loop callback. '''

    def __init__(self, ctx_name, source_desc, exc, tb):
        self.ctx = ctx_name
        self.source = source_desc
        self.exc_type = type(exc).__name__
        self.exc_msg = str(exc)
        self.tb = tb
        self.frame = innermost_repo_frame(tb)

    def bucket(self):
        return (self.exc_type, self.frame)

    def as_dict(self):
        return dict(ctx=self.ctx, source=self.source, exc=self.exc_type, msg=self.exc_msg[:200], frame=self.frame)


def innermost_repo_frame(tb_list):
    ''' "pkg/file.py:function" of the innermost traceback frame inside the
    repository source tree (VERIF_REPO_SRC, default /repo/src). '''
    import os
    root = os.environ.get('VERIF_REPO_SRC', '/repo/src').rstrip('/') + '/'
    found = None
    for fr in tb_list:
        if fr.filename.startswith(root):
            found = '%s:%s' % (fr.filename[len(root):], fr.name)
    return found


class Context(object):
    def __init__(self, name):
        self.name = name
        self.sources = []
        self.escapes = []
        self.dispatch_count = 0
        self.removed_unknown = 0

    # -- GLib API -------------------------------------------------------
    def _add(self, src):
        self.sources.append(src)
        _all_sources[src.sid] = (self, src)
        return src.sid

    def io_add_watch(self, chan, cond, cb, *args):
        src = Source('io', PRIO_DEFAULT, cb, args)
        src.chan = chan
        src.cond = cond
        return self._add(src)

    def idle_add(self, cb, *args):
        return self._add(Source('idle', PRIO_IDLE, cb, args))

    def timeout_add(self, ms, cb, *args):
        src = Source('timeout', PRIO_DEFAULT, cb, args)
        src.interval = int(ms)
        src.due = CLOCK.now_ms + int(ms)
        return self._add(src)

    def _remove(self, src):
        src.alive = False
        try:
            self.sources.remove(src)
        except ValueError:
            pass
        _all_sources.pop(src.sid, None)

    # -- harness API ----------------------------------------------------
    def _is_ready(self, src):
        if src.kind in ('idle', 'dbus-signal'):
            return True
        if src.kind == 'timeout':
            return CLOCK.now_ms >= src.due
        if src.kind == 'io':
            fn = getattr(src.chan, '_sim_ready', None)
            if fn is None:
                return False
            return bool(fn(src.cond))
        return False

    def ready_sources(self):
        ready = [s for s in self.sources if self._is_ready(s)]
        if not ready:
            return []
        top = min(s.prio for s in ready)
        return [s for s in ready if s.prio == top]

    def has_ready(self):
        return bool(self.ready_sources())

    def next_due(self):
        dues = [s.due for s in self.sources if s.kind == 'timeout']
        return min(dues) if dues else None

    def iterate(self):
        ''' One main-loop iteration.  :return: number of callbacks dispatched. '''
        batch = self.ready_sources()
        count = 0
        for src in batch:
            if not src.alive:
                continue
            count += 1
            self.dispatch_count += 1
            keep = False
            with entered(self):
                try:
                    if src.kind == 'io':
                        keep = src.cb(src.chan, src.cond, *src.args)
                    else:
                        keep = src.cb(*src.args)
                except Exception as err:  # PyGObject: print + FALSE
                    tb = traceback.extract_tb(err.__traceback__)
                    self.escapes.append(Escape(self.name, src.describe(), err, tb))
                    keep = False
            if not src.alive:
                continue
            if keep:
                if src.kind == 'timeout':
                    src.due = CLOCK.now_ms + src.interval
            else:
                self._remove(src)
        return count

    def call(self, func, *args, **kwargs):
        ''' Run a function (a simulated D-Bus method call) inside this context. '''
        with entered(self):
            return func(*args, **kwargs)

    def source_kinds(self):
        return sorted(s.describe() for s in self.sources)


class entered(object):
    def __init__(self, ctx):
        self.ctx = ctx

    def __enter__(self):
        _stack.append(self.ctx)
        return self.ctx

    def __exit__(self, *exc):
        _stack.pop()
        return False


def current():
    global _default
    if _stack:
        return _stack[-1]
    if _default is None:
        _default = Context('default')
    return _default


def source_remove(sid):
    ent = _all_sources.get(sid)
    if ent is None:
        # real GLib logs a critical and returns FALSE
        current().removed_unknown += 1
        return False
    ctx, src = ent
    ctx._remove(src)
    return True


def reset():
    ''' Forget everything (between generated cases). '''
    global _default
    _all_sources.clear()
    del _stack[:]
    _default = None
    CLOCK.now_ms = 0


def advance_to(ms):
    if ms < CLOCK.now_ms:
        raise ValueError('time cannot go backwards')
    CLOCK.now_ms = ms
