''' A real bp.agent.Agent with apps admin/fragment/bpsec plus a recorder
application, a fake convergence layer and the virtual loop/clock
(DESIGN.md section 2.5). '''
import re

from . import boot, simloop
from . import tcpcl_world as _tw   # virtual datetime objects

boot.bp()
import bp.agent  # noqa: E402
import bp.util  # noqa: E402
import bp.config  # noqa: E402
import bp.app.base  # noqa: E402
from bp.app.base import app, AbstractApplication  # noqa: E402
from bp.util import ChainStep  # noqa: E402
from bp.encoding import PrimaryBlock  # noqa: E402

bp.agent.datetime = _tw.VIRTUAL_DATETIME
bp.util.datetime = _tw.VIRTUAL_DATETIME

RECORDS = []


if 'verif_recorder' not in bp.app.base.APPLICATIONS:
    @app('verif_recorder')
    class Recorder(AbstractApplication):
        ''' Harness application: an application step of the receive chain (order 30). '''

        def load_config(self, config):
            self._config = config

        def add_chains(self, rx_chain, tx_chain):
            rx_chain.append(ChainStep(order=30, name='verif recorder', action=self._recv))

        def _recv(self, ctr):
            pri = ctr.bundle.primary
            try:
                pyld = ctr.block_num(1).getfieldval('btsd')
            except KeyError:
                pyld = None
            RECORDS.append(dict(
                agent=self._agent,
                deliver='deliver' in ctr.actions,
                fragment=bool(pri.bundle_flags & PrimaryBlock.Flag.IS_FRAGMENT),
                dest=pri.destination, source=pri.source, flags=int(pri.getfieldval('bundle_flags')),
                lifetime=int(pri.getfieldval('lifetime') or 0), report_to=pri.report_to,
                ts=(pri.create_ts.getfieldval('dtntime'), pri.create_ts.getfieldval('seqno')),
                payload=None if pyld is None else bytes(pyld),
                block_types=[int(b.getfieldval('type_code')) for b in ctr.bundle.getfieldval('blocks')],
                blocks=[(int(b.getfieldval('type_code')), int(b.getfieldval('block_num')),
                         bytes(b.getfieldval('btsd') or b'')) for b in ctr.bundle.getfieldval('blocks')],
                actions=sorted(ctr.actions),
                now=simloop.CLOCK.now_ms,
            ))
            return None


# The rest of the application set that bp/app/__init__.py loads in a deployment (zeroconf adds no chain step and
# only talks to the network).  Imported after the recorder so that the recorder sits before them among the
# order-30 steps (the sort is stable): whatever reaches the application steps is seen by the recorder.
import bp.app.sand  # noqa: E402
import bp.app.safe  # noqa: E402
import bp.safe_info  # noqa: E402
boot._check_origin(bp.app.sand, bp.app.safe, bp.safe_info)

APP_RECORDS = []     # what the SAND / SAFE applications consumed: dict(app=, agent=, dest=, source=, ts=)


def _wrap_app_consumers():
    real_group = bp.app.sand.SAND._recv_group
    real_safe = bp.app.safe.SAFE._recv_bundle
    real_pdu = bp.safe_info.SafeEntity.recv_pdu
    current = []

    def recv_group(self, ctr):
        pri = ctr.bundle.primary
        APP_RECORDS.append(dict(app='sand', agent=self._agent, dest=pri.destination, source=pri.source,
                                ts=(pri.create_ts.getfieldval('dtntime'), pri.create_ts.getfieldval('seqno'))))
        return real_group(self, ctr)

    def safe_recv(self, ctr):
        current.append((self, ctr))
        try:
            return real_safe(self, ctr)
        finally:
            current.pop()

    def recv_pdu(self, pdu, peer_eid):
        if current:
            app_obj, ctr = current[-1]
            pri = ctr.bundle.primary
            APP_RECORDS.append(dict(app='safe', agent=app_obj._agent, dest=pri.destination, source=pri.source,
                                    ts=(pri.create_ts.getfieldval('dtntime'), pri.create_ts.getfieldval('seqno'))))
        return real_pdu(self, pdu, peer_eid)

    bp.app.sand.SAND._recv_group = recv_group
    bp.app.safe.SAFE._recv_bundle = safe_recv
    bp.safe_info.SafeEntity.recv_pdu = recv_pdu


_wrap_app_consumers()


class FakeCL(object):
    ''' Stands in for a bp.cla adaptor: records what is handed to the convergence layer. '''

    def __init__(self):
        self.sent = []      # (raw_config, bytes, t_ms)
        self.fail = False
        self.fail_next = set()   # next-hop node IDs for which the hand-over to the CL raises
        self.fail_after = {}     # next-hop node ID -> number of hand-overs recorded for it from which on the hand-over raises
        self.serv_name = 'verif.fake'

    def send_bundle_func(self, raw_config):
        def sender(data):
            nxt = (raw_config or {}).get('next')
            if self.fail or nxt in self.fail_next:
                raise RuntimeError('scripted CL failure')
            if nxt in self.fail_after and len([1 for cfg, _d, _t in self.sent if (cfg or {}).get('next') == nxt]) >= self.fail_after[nxt]:
                raise RuntimeError('scripted CL failure (after the first hand-over)')
            self.sent.append((raw_config, bytes(data), simloop.CLOCK.now_ms))
        return sender

    def bind(self, *_a):
        pass

    def unbind(self):
        pass


class Node(object):
    def __init__(self, node_id, rx_routes=(), tx_routes=(), accept_after_verify=False, name=None, apps=None, config_extra=None,
                 strict_routes=True):
        ''' rx_routes: [(regex, action)], tx_routes: [(regex, next_node, mtu)] '''
        self.node_id = node_id
        self.ctx = simloop.Context(name or node_id)
        # The configuration is loaded the way a deployment loads it: Config.from_file() on a YAML document (written in
        # JSON form, which is valid YAML) with the options under "bp".
        doc = dict(node_id=node_id, accept_after_verify=bool(accept_after_verify),
                   rx_route_table=[dict(eid_pattern=pat, action=action) for pat, action in rx_routes],
                   tx_route_table=[self._tx_entry(pat, nxt, mtu) for pat, nxt, mtu in tx_routes])
        if apps:
            doc['apps'] = dict(apps)
        for key, val in (config_extra or {}).items():
            # (e.g. sign_key_file / sign_cert_file / verify_ca_file)
            doc[key] = val
        self._doc = doc
        cfg = bp.config.Config()
        self._load(cfg)
        # (strict_routes=False: the routing table is the input under test - C10 - and what the loader makes of it is judged
        # by the check's own oracle, not taken for a mistake of the harness)
        if strict_routes and (len(cfg.rx_route_table) != len(doc['rx_route_table']) or len(cfg.tx_route_table) != len(doc['tx_route_table'])):
            raise boot.BootError('a route entry of the harness was rejected by Config.from_file')
        self.config = cfg
        with simloop.entered(self.ctx):
            self.agent = bp.agent.Agent(cfg)
        self.cl = FakeCL()
        self.agent._cl_agent['fake'] = self.cl
        self.recv_errors = []

    @staticmethod
    def _tx_entry(pat, nxt, mtu):
        entry = dict(eid_pattern=pat, next_nodeid=nxt, cl_type='fake', next=nxt)
        if mtu is not None:
            entry['mtu'] = int(mtu)
        return entry

    def _load(self, cfg):
        import io
        import json
        cfg.from_file(io.StringIO(json.dumps({'bp': self._doc})))

    def set_mtu(self, index, mtu):
        ''' The MTU of transmit route ``index`` is changed in the configuration document and the document loaded again
        (Config.from_file rebuilds the route tables of the same Config object the agent holds). '''
        entry = self._doc['tx_route_table'][index]
        if mtu is None:
            entry.pop('mtu', None)
        else:
            entry['mtu'] = int(mtu)
        self._load(self.config)

    @property
    def bpsec(self):
        return self.agent._app['bpsec'].get_context(3)

    @property
    def fragment_app(self):
        return self.agent._app['fragment']

    def records(self, deliveries_only=True):
        out = [r for r in RECORDS if r['agent'] is self.agent]
        if deliveries_only:
            out = [r for r in out if r['deliver'] and not r['fragment']]
        return out

    def app_records(self):
        return [r for r in APP_RECORDS if r['agent'] is self.agent]

    def run(self, max_iter=2000):
        ''' Run the main loop until nothing is ready. '''
        for _ in range(max_iter):
            if not self.ctx.iterate():
                return True
        return False

    def receive(self, data, run=True):
        ''' A CL hands a received bundle to the agent (real callback). '''
        func = self.agent._cl_recv_bundle_finish('fake')
        err = None
        with simloop.entered(self.ctx):
            try:
                func(bytes(data), {})
            except Exception as exc:   # an undecodable bundle is dropped by the CL adaptor's signal handler
                err = exc
                self.recv_errors.append(exc)
        if run:
            self.run()
        return err

    def send(self, ctr, run=True):
        ''' Originate a bundle through the agent's send path. '''
        err = None
        with simloop.entered(self.ctx):
            try:
                self.agent.send_bundle(ctr)
            except Exception as exc:
                err = exc
        if run:
            self.run()
        return err

    def sent(self):
        return [data for (_cfg, data, _t) in self.cl.sent]

    def escapes(self):
        return list(self.ctx.escapes)


def _scapy_shared_dicts():
    ''' scapy keeps one ``overload_fields`` dict per (payload class, underlayer class) and hands the
    very same dict object to every packet instance: remember the pristine contents. '''
    import scapy.packet
    from bp.encoding import blocks, bpsec, admin  # noqa: F401
    found = []
    seen = set()

    def visit(cls):
        if cls in seen:
            return
        seen.add(cls)
        table = cls.__dict__.get('overload_fields')
        if isinstance(table, dict):
            for lower, mapping in table.items():
                found.append((mapping, dict(mapping)))
        for sub in cls.__subclasses__():
            visit(sub)
    visit(scapy.packet.Packet)
    return found


_PRISTINE = _scapy_shared_dicts()


def reset():
    ''' Forget everything between cases, including process-wide state inside scapy classes, so
    that a case is a pure function of its own history. '''
    simloop.reset()
    import dbus
    dbus.RECORDER.reset()    # also forgets the virtual bus (names, signal subscriptions)
    del RECORDS[:]
    del APP_RECORDS[:]
    for mapping, pristine in _PRISTINE:
        if mapping != pristine:
            mapping.clear()
            mapping.update(pristine)
