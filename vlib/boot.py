''' Make the real dtn-demo-agent modules importable in-process.

* puts /verif, /verif/shims and the repository source tree first on sys.path
  (VERIF_REPO_SRC overrides /repo/src so the same checks can be pointed at a
  scratch worktree when their sensitivity is tested);
* imports certvalidator with the one oscrypto version regex widened;
* pre-seeds ``bp.app`` so that only base/admin/fragment/bpsec are loaded;
* asserts that every repository package really comes from the source tree.

Harness problems raise BootError (runner exit code 2, never a VIOLATION).
'''
import logging
import os
import re
import sys
import types

VERIF = os.path.dirname(os.path.dirname(os.path.abspath(__file__)))
REPO_SRC = os.environ.get('VERIF_REPO_SRC', '/repo/src').rstrip('/')
os.environ['VERIF_REPO_SRC'] = REPO_SRC


class BootError(RuntimeError):
    pass


_done = {}


def base():
    if _done.get('base'):
        return
    sys.dont_write_bytecode = True
    for path in (REPO_SRC, os.path.join(VERIF, 'shims'), VERIF):
        if path in sys.path:
            sys.path.remove(path)
        sys.path.insert(0, path)
    if not os.path.isdir(REPO_SRC):
        raise BootError('repository source tree not found at %s' % REPO_SRC)
    logging.disable(logging.CRITICAL)
    logging.getLogger('scapy').setLevel(logging.CRITICAL)
    _done['base'] = True


def _check_origin(*mods):
    for mod in mods:
        fname = getattr(mod, '__file__', None) or list(getattr(mod, '__path__', ['?']))[0]
        if not os.path.abspath(fname).startswith(REPO_SRC + '/'):
            raise BootError('%s imported from %s, not from %s' % (mod.__name__, fname, REPO_SRC))


def certvalidator_workaround():
    ''' oscrypto's libcrypto version regex does not match "OpenSSL 3.0.20". '''
    if _done.get('certvalidator'):
        return
    real_search = re.search

    def search(pattern, string, flags=0):
        if isinstance(pattern, str) and '\\d\\.\\d\\.\\d' in pattern:
            pattern = pattern.replace('\\d\\.\\d\\.\\d', '\\d+\\.\\d+\\.\\d+')
        return real_search(pattern, string, flags)

    re.search = search
    try:
        import certvalidator  # noqa: F401
        from oscrypto import asymmetric  # noqa: F401
    finally:
        re.search = real_search
    _done['certvalidator'] = True


def tcpcl():
    base()
    if 'tcpcl' not in _done:
        import tcpcl
        import tcpcl.session
        import tcpcl.agent
        import tcpcl.messages
        import tcpcl.contact
        _check_origin(tcpcl, tcpcl.session, tcpcl.messages, tcpcl.contact)
        _done['tcpcl'] = tcpcl
    return _done['tcpcl']


def bp():
    base()
    if 'bp' not in _done:
        certvalidator_workaround()
        import bp
        _check_origin(bp)
        app_pkg = types.ModuleType('bp.app')
        app_pkg.__path__ = [os.path.join(REPO_SRC, 'bp', 'app')]
        app_pkg.__package__ = 'bp.app'
        sys.modules['bp.app'] = app_pkg
        bp.app = app_pkg
        import bp.encoding
        import bp.util
        import bp.app.base
        import bp.app.admin
        import bp.app.fragment
        import bp.app.bpsec
        import bp.agent
        import scapy_cbor.packets
        _check_origin(bp.encoding, bp.util, bp.agent, bp.app.base, bp.app.admin, bp.app.fragment,
                      bp.app.bpsec, scapy_cbor.packets)
        _done['bp'] = bp
    return _done['bp']


def udpcl():
    base()
    if 'udpcl' not in _done:
        import udpcl
        import udpcl.agent
        _check_origin(udpcl, udpcl.agent)
        _done['udpcl'] = udpcl
    return _done['udpcl']


def btpu():
    base()
    if 'btpu' not in _done:
        import btpu.agent
        import btpu.messages
        _check_origin(btpu.agent, btpu.messages)
        _done['btpu'] = sys.modules['btpu']
    return _done['btpu']


def selftest_shims():
    ''' Validate the stand-ins against independent models. '''
    base()
    import random
    from vlib import refcrc
    import crcmod.predefined
    x25 = crcmod.predefined.mkPredefinedCrcFun('x-25')
    c32 = crcmod.predefined.mkPredefinedCrcFun('crc-32c')
    if x25(b'123456789') != 0x906E or c32(b'123456789') != 0xE3069283:
        raise BootError('crcmod shim fails the catalogue check values')
    rnd = random.Random(12345)
    for _ in range(200):
        data = bytes(rnd.getrandbits(8) for _ in range(rnd.randrange(0, 40)))
        if x25(data) != refcrc.crc16_x25(data) or c32(data) != refcrc.crc32c(data):
            raise BootError('crcmod shim disagrees with bit-serial reference')
    import portion
    for _ in range(500):
        acc = portion.empty()
        model = set()
        for _ in range(rnd.randrange(0, 6)):
            lo = rnd.randrange(0, 30)
            hi = rnd.randrange(0, 30)
            acc = acc | portion.closedopen(lo, hi)
            model |= set(range(lo, hi))
        got = set(portion.iterate(acc, step=1))
        if got != model:
            raise BootError('portion shim union disagrees with set model')
        if (acc == portion.closedopen(0, 30)) != (model == set(range(30))):
            raise BootError('portion shim equality disagrees with set model')
        pieces = [(p.lower, p.upper) for p in acc]
        if any(b <= a for a, b in pieces) or any(pieces[i][1] >= pieces[i + 1][0] for i in range(len(pieces) - 1)):
            raise BootError('portion shim is not normalised')
        probe = rnd.randrange(0, 30)
        if (probe in acc) != (probe in model):
            raise BootError('portion shim membership disagrees with set model')
    api = portion.create_api(type('I', (portion.AbstractDiscreteInterval,), {'_step': 1}))
    if not (api.singleton(0) | api.singleton(1) | api.singleton(2) == api.closed(0, 2)):
        raise BootError('portion discrete API broken')
    if hash(api.empty()) != hash(api.empty()):
        raise BootError('portion intervals must be hashable')
