''' Model-based history generator/executor for two real TCPCL endpoints.

A case is plain JSON:
  {'cfg': {'a': {...}, 'b': {...}, 'cap_ab': int|None, 'cap_ba': int|None, 'regime': str},
   'ops': [op, ...]}
with op one of
  ['send', side, length, seed]      user queues a bundle (content = PRNG(seed))
  ['run', [int, ...]]               scheduler decisions, decoded against what is enabled
  ['pop', side]                     user pops the oldest announced, not yet popped bundle
  ['query', side, name]             user calls a read-only method
  ['term', side, reason]            user calls terminate()
  ['close', side]                   user calls close()
  ['vanish', dir]                   the network kills one direction (peer process died)
  ['cap', dir, value]               the network changes the in-flight capacity
  ['tick']                          advance virtual time to the next timer
  ['estab']                         fair scheduling until both sides report 'established'
  ['wait', ms]                      the virtual clock advances (drives the adaptive segment sizing)

The executor returns a Trace with everything the oracles need.
'''
import hashlib

from hypothesis import strategies as st

from . import simloop, ref9174
from . import tcpcl_world as tw

import dbus  # shim

SEG_SIZES = [1, 2, 3, 7, 64, 1000, 10240, 100000]
CAPS = [None, None, 1, 5, 64, 4096]
REGIMES = ['fair', 'lazy-b', 'lazy-a', 'bytewise', 'bursty']


def content(length, seed):
    ''' Deterministic, position-dependent, aperiodic bundle content. '''
    out = bytearray()
    counter = 0
    while len(out) < length:
        out += hashlib.sha256(b'%d:%d' % (seed, counter)).digest()
        counter += 1
    return bytes(out[:length])


# --- strategies ------------------------------------------------------------------------

def _side():
    return st.sampled_from(['A', 'B'])


@st.composite
def configs(draw, keepalive=False, priv_ext=True):
    cfg = {}
    for side in ('a', 'b'):
        cfg[side] = dict(seg_init=draw(st.sampled_from(SEG_SIZES)), mru=draw(st.sampled_from(SEG_SIZES)),
                         keepalive=draw(st.sampled_from([0, 0, 0, 1, 3])) if keepalive else 0, idle=0)
        if draw(st.integers(0, 3)) == 0:
            # adaptive segment sizing: needs the virtual clock to move between a segment and its ACK ('wait' ops)
            cfg[side]['target_ack'] = draw(st.sampled_from([1, 5]))
    cfg['cap_ab'] = draw(st.sampled_from(CAPS))
    cfg['cap_ba'] = draw(st.sampled_from(CAPS))
    cfg['regime'] = draw(st.sampled_from(REGIMES))
    cfg['priv_ext'] = draw(st.booleans()) if priv_ext else False
    # both sides offer TLS: the session runs through the endpoint's TLS socket paths (scripted pass-through socket
    # without certificates; 'records': reads hand data over record-wise, the rest stays pending inside the TLS object)
    # 'cert': as 'plain', and each side presents a certificate naming its address and node ID (the authentication
    # results then show up in the session parameters)
    cfg['tls'] = draw(st.sampled_from([None, None, None, 'plain', 'records', 'cert']))
    return cfg


def seg_size_for(cfg, side):
    ''' Segment size the sender on ``side`` will use initially. '''
    me = cfg['a'] if side == 'A' else cfg['b']
    peer = cfg['b'] if side == 'A' else cfg['a']
    return min(me['seg_init'], peer['mru'])


@st.composite
def send_ops(draw, cfg, allow_zero=True):
    side = draw(_side())
    seg = seg_size_for(cfg, side)
    choices = [1, 2, max(1, seg - 1), seg, seg + 1, 2 * seg, 2 * seg + 1, 3 * seg - 1, 5 * seg]
    if allow_zero:
        choices.append(0)
    if seg >= 64:
        choices += [10239, 10240, 10241, 25000]
    length = draw(st.one_of(st.sampled_from(choices), st.integers(0 if allow_zero else 1, max(8 * seg, 40))))
    length = min(length, 40 * seg, 40000)
    if not allow_zero:
        length = max(1, length)
    return ['send', side, length, draw(st.integers(0, 10 ** 6))]


def run_ops(max_len=40):
    return st.lists(st.integers(0, 255), min_size=1, max_size=max_len).map(lambda ch: ['run', ch])


@st.composite
def cases(draw, max_ops=14, terminate=False, closes=False, vanish=False, allow_zero=True, queries=False,
          priv_ext=True, caps_change=True, keepalive=False):
    cfg = draw(configs(priv_ext=priv_ext, keepalive=keepalive))
    n_ops = draw(st.integers(1, max_ops))
    ops = []
    if draw(st.integers(0, 9)) < 6:
        ops.append(['estab'])
    for _ in range(n_ops):
        kinds = ['send', 'send', 'run', 'run', 'run', 'pop']
        if any(cfg[x].get('target_ack') for x in ('a', 'b')):
            kinds += ['wait', 'wait']
        if any(cfg[x].get('keepalive') for x in ('a', 'b')):
            # keepalive timers fire between (and in the middle of) the messages of a transfer held up by the network
            kinds += ['wait', 'wait']
        if caps_change:
            kinds.append('cap')
        if queries:
            kinds += ['query', 'query']
        if terminate:
            kinds.append('term')
        if closes:
            kinds.append('close')
        if vanish:
            kinds.append('vanish')
        kind = draw(st.sampled_from(kinds))
        if kind == 'send':
            ops.append(draw(send_ops(cfg, allow_zero)))
        elif kind == 'run':
            ops.append(draw(run_ops()))
        elif kind == 'pop':
            ops.append(['pop', draw(_side())])
        elif kind == 'wait':
            ops.append(['wait', draw(st.sampled_from([1, 2, 10, 100, 1000, 5000]))])
        elif kind == 'cap':
            ops.append(['cap', draw(st.sampled_from(['ab', 'ba'])), draw(st.sampled_from(CAPS))])
        elif kind == 'query':
            ops.append(['query', draw(_side()), draw(st.sampled_from(QUERIES))])
        elif kind == 'term':
            ops.append(['term', draw(_side()), draw(st.sampled_from([0, 1, 3, 5]))])
        elif kind == 'close':
            ops.append(['close', draw(_side())])
        elif kind == 'vanish':
            ops.append(['vanish', draw(st.sampled_from(['ab', 'ba']))])
    return {'cfg': cfg, 'ops': ops}


@st.composite
def timer_midmessage_cases(draw, terminate=False):
    ''' Histories in which a timer of the sender (keepalive) fires while one large message is partly handed to a slow
    network: segments of more than one connection-level chunk (10240 octets), a small link capacity, and virtual
    time passing in between the scheduling steps. '''
    cfg = {}
    for side in ('a', 'b'):
        cfg[side] = dict(seg_init=draw(st.sampled_from([10240, 100000])), mru=draw(st.sampled_from([10240, 100000])),
                         keepalive=draw(st.sampled_from([1, 1, 3])), idle=0)
    cfg['cap_ab'] = draw(st.sampled_from([1, 5, 64, 4096]))
    cfg['cap_ba'] = draw(st.sampled_from([None, 64, 4096]))
    cfg['regime'] = draw(st.sampled_from(REGIMES))
    cfg['priv_ext'] = False
    cfg['tls'] = draw(st.sampled_from([None, None, 'plain']))
    ops = [['estab'], ['send', 'A', draw(st.sampled_from([10241, 20500, 25000, 40000])), draw(st.integers(0, 10 ** 6))]]
    for _ in range(draw(st.integers(1, 5))):
        ops.append(draw(run_ops()))
        ops.append(['wait', draw(st.sampled_from([999, 1000, 3000, 5000]))])
        if draw(st.integers(0, 5)) == 0:
            ops.append(['send', draw(_side()), draw(st.sampled_from([1, 300, 10241])), draw(st.integers(0, 10 ** 6))])
        if terminate and draw(st.integers(0, 7)) == 0:
            ops.append(['term', draw(_side()), 0])
    ops.append(draw(run_ops()))
    return {'cfg': cfg, 'ops': ops}


QUERIES = ['send_bundle_get_queue', 'recv_bundle_get_queue', 'is_sess_idle', 'get_session_parameters',
           'get_session_state', 'is_secure', 'pop_unknown', 'pop_twice', 'get_connections', 'pop_file_bad']


# --- executor ------------------------------------------------------------------------------

class Trace(object):
    def __init__(self):
        self.cfg = None
        self.world = None
        self.sent = {'A': [], 'B': []}        # [(bid or CallError, data)]
        self.popped = {'A': [], 'B': []}      # [(bid, data or CallError)]
        self.queries = []                      # (seq, side, name, result, snapshot)
        self.term_calls = []                   # (seq, side, reason, result)
        self.close_calls = []                  # (seq, side)
        self.vanished = []
        self.drain_rounds = None
        self.labels = set()
        self.steps = 0
        self.mid_send = 0                      # user sends while a transfer was in progress
        self.events = None
        self.wire = {}
        self.snapshots = []

    def end(self, side):
        return self.world.ends[side]


def other(side):
    return 'B' if side == 'A' else 'A'


def build_world(cfg):
    enable = {'private_extensions'} if cfg.get('priv_ext') else set()
    kw_a = dict(segment_size_tx_initial=cfg['a']['seg_init'], segment_size_mru=cfg['a']['mru'],
                keepalive_time=cfg['a'].get('keepalive', 0), idle_time=cfg['a'].get('idle', 0), enable_test=set(enable))
    kw_b = dict(segment_size_tx_initial=cfg['b']['seg_init'], segment_size_mru=cfg['b']['mru'],
                keepalive_time=cfg['b'].get('keepalive', 0), idle_time=cfg['b'].get('idle', 0), enable_test=set(enable))
    for side_kw, side_cfg in ((kw_a, cfg['a']), (kw_b, cfg['b'])):
        if side_cfg.get('target_ack') is not None:
            side_kw['modulate_target_ack_time'] = side_cfg['target_ack']
    script_a = script_b = None
    if cfg.get('tls'):
        script_a = {'records': cfg['tls'] == 'records'}
        script_b = dict(script_a)
        if cfg['tls'] == 'cert':
            # what A sees is B's certificate and the other way round (addresses as in tcpcl_world.World)
            script_a['peer_cert_der'] = tw.make_cert(['ip-match', 'uri-match'], '10.0.0.2', 'dtn://node-b/')
            script_b['peer_cert_der'] = tw.make_cert(['ip-match', 'uri-match'], '10.0.0.1', 'dtn://node-a/')
        for side_kw in (kw_a, kw_b):
            side_kw.update(tls_enable=True, require_host_authn=cfg['tls'] == 'cert', require_node_authn=cfg['tls'] == 'cert')
    cap_ab, cap_ba = cfg.get('cap_ab'), cfg.get('cap_ba')
    return tw.World(tw.make_config('dtn://node-a/', tls_script=script_a, **kw_a), tw.make_config('dtn://node-b/', tls_script=script_b, **kw_b),
                    cap_ab=_tls_cap(cfg, cap_ab), cap_ba=_tls_cap(cfg, cap_ba))


def _tls_cap(cfg, cap):
    ''' The real endpoint switches its socket to blocking mode and runs the TLS handshake synchronously (Connection.
    secure): whatever cleartext is still unwritten then (the contact header) cannot be represented in a single-threaded
    simulation of non-blocking sockets.  With TLS the link therefore takes at least a whole contact header at once
    (a real socket buffer always does at the start of a connection). '''
    if cfg.get('tls') and cap is not None:
        return max(cap, 64)
    return cap


def _enabled(world, regime):
    opts = []
    ra = world.ends['A'].ctx.has_ready()
    rb = world.ends['B'].ctx.has_ready()
    dab = len(world.link.ab.inflight) > 0
    dba = len(world.link.ba.inflight) > 0
    if ra:
        opts += [('it', 'A')] * (1 if regime == 'lazy-a' else 3)
    if rb:
        opts += [('it', 'B')] * (1 if regime == 'lazy-b' else 3)
    if dab:
        opts += [('dl', 'ab')] * (4 if regime in ('bytewise', 'bursty') else 2)
    if dba:
        opts += [('dl', 'ba')] * (4 if regime in ('bytewise', 'bursty') else 2)
    return opts


def run_schedule(world, regime, choices, trace):
    idx = 0
    while idx < len(choices):
        opts = _enabled(world, regime)
        if not opts:
            break
        kind, arg = opts[choices[idx] % len(opts)]
        idx += 1
        trace.steps += 1
        if kind == 'it':
            world.iterate(arg)
        else:
            pipe = world.link.pipe(arg)
            sel = choices[idx] if idx < len(choices) else 0
            idx += 1
            if regime == 'bytewise':
                amount = 1 + (sel % 3)
            elif regime == 'bursty':
                amount = len(pipe.inflight) if sel % 2 else 1 + sel % max(1, len(pipe.inflight))
            else:
                amount = len(pipe.inflight) if sel % 4 == 0 else 1 + sel % max(1, len(pipe.inflight))
            pipe.deliver(amount)


def _transfer_active(hdl):
    return hdl._tx_tmp is not None or bool(hdl._tx_pend_ack)


def snapshot(trace, tag):
    ''' Cheap per-step record used by the history invariants. '''
    world = trace.world
    snap = dict(tag=tag, seq=dbus.RECORDER.seq, t=simloop.CLOCK.now_ms)
    for side in ('A', 'B'):
        end = world.ends[side]
        snap[side] = dict(state=end.hdl._state, closed=end.sock.closed,
                          wire_len=len(world.link.ab.log if side == 'A' else world.link.ba.log))
    trace.snapshots.append(snap)


def execute(case, final_drain=True, drain_timers=False):
    cfg = case['cfg']
    trace = Trace()
    trace.cfg = cfg
    world = build_world(cfg)
    trace.world = world
    regime = cfg.get('regime', 'fair')
    trace.labels.add('regime:' + regime)
    announced = {'A': [], 'B': []}

    def on_event(ev):
        if ev['kind'] == 'signal' and ev['member'] == 'recv_bundle_finished':
            for side in ('A', 'B'):
                if ev['obj'] is world.ends[side].hdl:
                    announced[side].append(ev['args'][0])
    dbus.RECORDER.listeners.append(on_event)

    for op in case['ops']:
        kind = op[0]
        if kind == 'send':
            _, side, length, seed = op
            data = content(length, seed)
            end = world.ends[side]
            if _transfer_active(end.hdl):
                trace.mid_send += 1
            res = end.call('send_bundle_data', dbus.ByteArray(data))
            trace.sent[side].append((res, data, dbus.RECORDER.seq))
        elif kind == 'run':
            run_schedule(world, regime, op[1], trace)
        elif kind == 'pop':
            side = op[1]
            pend = [bid for bid in announced[side] if bid not in [p[0] for p in trace.popped[side]]]
            if pend:
                res = world.ends[side].call('recv_bundle_pop_data', pend[0])
                trace.popped[side].append((pend[0], res, dbus.RECORDER.seq))
        elif kind == 'query':
            _, side, name = op
            end = world.ends[side]
            if name == 'pop_unknown':
                res = end.call('recv_bundle_pop_data', '987654')
            elif name == 'pop_twice':
                done = [p[0] for p in trace.popped[side]]
                res = end.call('recv_bundle_pop_data', done[0]) if done else None
            elif name == 'pop_file_bad':
                # pop into a file that cannot be created: an error reply, and the bundle must still be there afterwards
                # (the follow-up queue query is judged against "announced minus successfully popped")
                listed = end.call('recv_bundle_get_queue')
                res = None
                if not isinstance(listed, tw.CallError) and list(listed):
                    res = end.call('recv_bundle_pop_file', str(list(listed)[0]), '/nonexistent-verif-directory/bundle.bin')
                    follow = 'recv_bundle_get_queue'
                    fres = end.call(follow)
                    hdl = end.hdl
                    fmodel = dict(rx_map=sorted(str(k) for k in hdl._rx_map), tx_map=sorted(str(k) for k in hdl._tx_map),
                                  rx_buf=hdl.recv_buffer_used(), tx_buf=hdl.send_buffer_used(),
                                  rx_tmp=hdl._rx_tmp is not None, tx_tmp=hdl._tx_tmp is not None,
                                  pend_start=len(hdl._tx_pend_start), pend_ack=len(hdl._tx_pend_ack),
                                  closed=end.sock.closed, readable=len(end.sock.rx.readable))
                    trace.queries.append((dbus.RECORDER.seq, side, follow, fres, fmodel))
            elif name == 'get_connections':
                res = tw.dbuscall(end.ctx, end.agent, 'get_connections')
                res = list(res) if not isinstance(res, tw.CallError) else res
            else:
                res = end.call(name)
            hdl = end.hdl
            model = dict(rx_map=sorted(str(k) for k in hdl._rx_map), tx_map=sorted(str(k) for k in hdl._tx_map),
                         rx_buf=hdl.recv_buffer_used(), tx_buf=hdl.send_buffer_used(),
                         rx_tmp=hdl._rx_tmp is not None, tx_tmp=hdl._tx_tmp is not None,
                         pend_start=len(hdl._tx_pend_start), pend_ack=len(hdl._tx_pend_ack),
                         closed=end.sock.closed, readable=len(end.sock.rx.readable))
            trace.queries.append((dbus.RECORDER.seq, side, name, res, model))
        elif kind == 'term':
            _, side, reason = op
            res = world.ends[side].call('terminate', dbus.Byte(reason))
            trace.term_calls.append((dbus.RECORDER.seq, side, reason, res))
        elif kind == 'close':
            side = op[1]
            res = world.ends[side].call('close')
            trace.close_calls.append((dbus.RECORDER.seq, side, res))
        elif kind == 'vanish':
            direction = op[1]
            pipe = world.link.pipe(direction)
            pipe.writer_closed = True
            sock = world.link.sock_a if direction == 'ab' else world.link.sock_b
            sock.tx.writer_closed = True
            trace.vanished.append((dbus.RECORDER.seq, direction))
        elif kind == 'cap':
            world.link.pipe(op[1]).capacity = _tls_cap(case['cfg'], op[2])
        elif kind == 'tick':
            world.advance_to_next_timer()
        elif kind == 'wait':
            simloop.advance_to(simloop.CLOCK.now_ms + max(0, int(op[1])))
        elif kind == 'estab':
            # cooperative start-up: run fairly until both sides are established
            world.drain(max_rounds=400, stop=lambda: all(e.hdl._state == 'established' for e in world.ends.values()))
        snapshot(trace, kind)

    if final_drain:
        # the network stops being adversarial: unlimited capacity, everything delivered, fair scheduling
        world.link.ab.capacity = None
        world.link.ba.capacity = None
        trace.drain_rounds = world.drain(max_rounds=6000, advance_timers=drain_timers)
        snapshot(trace, 'drain')
    dbus.RECORDER.listeners.remove(on_event)
    trace.events = list(dbus.RECORDER.events)
    for direction in ('ab', 'ba'):
        trace.wire[direction] = ref9174.parse_stream(bytes(world.link.pipe(direction).log))
    return trace


# --- shared derived views ------------------------------------------------------------------

def signals_of(trace, side, member):
    hdl = trace.world.ends[side].hdl
    # (what an observer on the bus gets: a signal raised by an object that has left the bus goes nowhere)
    return [e for e in trace.events if e['kind'] == 'signal' and e['obj'] is hdl and e['member'] == member and e.get('exported', True)]


def escapes_to(out, trace, prefix='escape'):
    for esc in trace.world.escapes():
        out.fail('%s:%s@%s' % (prefix, esc.exc_type, esc.frame),
                 'exception escaped an event-loop callback of endpoint %s (%s): %s: %s'
                 % (esc.ctx, esc.source, esc.exc_type, esc.exc_msg[:160]))


def reassemble_wire(msgs):
    ''' Transfers as (id, data, complete) in wire order, from parsed messages of one direction. '''
    transfers = []
    cur = None
    for msg in msgs:
        if msg['t'] != 'XFER_SEGMENT':
            continue
        if msg['flags'] & ref9174.SEG_START or cur is None or cur['id'] != msg['id']:
            cur = dict(id=msg['id'], data=b'', complete=False)
            transfers.append(cur)
        cur['data'] += bytes.fromhex(msg['data'])
        if msg['flags'] & ref9174.SEG_END:
            cur['complete'] = True
            cur = None
    return transfers
