''' Independent RFC 9174 (TCPCLv4) message codec with ``struct`` only.

Messages are plain dicts:
  {'t': 'CH', 'magic': hex, 'version': int, 'flags': int}
  {'t': 'SESS_INIT', 'keepalive', 'segment_mru', 'transfer_mru', 'nodeid': str, 'ext': [ext...]}
  {'t': 'SESS_TERM', 'flags', 'reason'}
  {'t': 'XFER_SEGMENT', 'flags', 'id', 'ext': [ext...] (START only), 'data': hex}
  {'t': 'XFER_ACK', 'flags', 'id', 'length'}
  {'t': 'XFER_REFUSE', 'reason', 'id'}
  {'t': 'KEEPALIVE'}
  {'t': 'MSG_REJECT', 'rej_msg_id', 'reason'}
  ext = {'flags', 'type', 'value': hex}

MSG_REJECT octet order: the repository's pinned unit test fixes the order
(rejected message header, reason code); the reference follows the pinned
vector (see DESIGN.md, C07) because the RFC text is not available offline.
'''
import struct

MAGIC = b'dtn!'
NEED_MORE = 'NEED_MORE'

SEG_END = 0x01
SEG_START = 0x02
TERM_REPLY = 0x01
CH_CAN_TLS = 0x01
EXT_CRITICAL = 0x01
EXT_TRANSFER_LENGTH = 0x0001

TYPE_NAMES = {1: 'XFER_SEGMENT', 2: 'XFER_ACK', 3: 'XFER_REFUSE', 4: 'KEEPALIVE',
              5: 'SESS_TERM', 6: 'MSG_REJECT', 7: 'SESS_INIT'}
TYPE_CODES = {v: k for k, v in TYPE_NAMES.items()}


class Invalid(Exception):
    pass


# --- encoding ----------------------------------------------------------------------

def enc_ext(items):
    out = b''
    for ext in items:
        val = bytes.fromhex(ext['value'])
        out += struct.pack('>BHH', ext['flags'], ext['type'], len(val)) + val
    return out


def encode(msg):
    kind = msg['t']
    if kind == 'CH':
        return bytes.fromhex(msg.get('magic', MAGIC.hex())) + struct.pack('>BB', msg.get('version', 4), msg['flags'])
    if kind == 'RAW':
        return bytes.fromhex(msg['data'])
    code = bytes([TYPE_CODES[kind]])
    if kind == 'SESS_INIT':
        nodeid = msg['nodeid'].encode('utf-8')
        ext = enc_ext(msg.get('ext', []))
        return (code + struct.pack('>HQQH', msg['keepalive'], msg['segment_mru'], msg['transfer_mru'], len(nodeid))
                + nodeid + struct.pack('>I', len(ext)) + ext)
    if kind == 'SESS_TERM':
        return code + struct.pack('>BB', msg['flags'], msg['reason'])
    if kind == 'XFER_SEGMENT':
        data = bytes.fromhex(msg['data'])
        out = code + struct.pack('>BQ', msg['flags'], msg['id'])
        if msg['flags'] & SEG_START:
            ext = enc_ext(msg.get('ext', []))
            out += struct.pack('>I', len(ext)) + ext
        return out + struct.pack('>Q', len(data)) + data
    if kind == 'XFER_ACK':
        return code + struct.pack('>BQQ', msg['flags'], msg['id'], msg['length'])
    if kind == 'XFER_REFUSE':
        return code + struct.pack('>BQ', msg['reason'], msg['id'])
    if kind == 'KEEPALIVE':
        return code
    if kind == 'MSG_REJECT':
        return code + struct.pack('>BB', msg['rej_msg_id'], msg['reason'])
    raise ValueError('cannot encode %r' % (msg,))


def transfer_length_ext(total):
    return {'flags': 0, 'type': EXT_TRANSFER_LENGTH, 'value': struct.pack('>Q', total).hex()}


# --- decoding ----------------------------------------------------------------------

def _parse_ext(buf):
    items = []
    pos = 0
    while pos < len(buf):
        if pos + 5 > len(buf):
            raise Invalid('truncated extension item header')
        flags, etype, elen = struct.unpack('>BHH', buf[pos:pos + 5])
        pos += 5
        if pos + elen > len(buf):
            raise Invalid('extension item overruns the extension list')
        items.append({'flags': flags, 'type': etype, 'value': bytes(buf[pos:pos + elen]).hex()})
        pos += elen
    return items


def parse_contact(buf):
    ''' :return: (msg, consumed) or NEED_MORE.  Any 6 octets parse (validation is the receiver's job). '''
    if len(buf) < 6:
        return NEED_MORE
    return ({'t': 'CH', 'magic': bytes(buf[:4]).hex(), 'version': buf[4], 'flags': buf[5]}, 6)


def parse_message(buf):
    ''' :return: (msg, consumed), NEED_MORE, or raises Invalid. '''
    if len(buf) < 1:
        return NEED_MORE
    code = buf[0]
    kind = TYPE_NAMES.get(code)
    if kind is None:
        raise Invalid('unknown message type 0x%02x' % code)
    pos = 1

    def need(count):
        return len(buf) < pos + count

    if kind == 'KEEPALIVE':
        return ({'t': kind}, 1)
    if kind == 'SESS_TERM':
        if need(2):
            return NEED_MORE
        flags, reason = struct.unpack('>BB', buf[pos:pos + 2])
        return ({'t': kind, 'flags': flags, 'reason': reason}, 3)
    if kind == 'MSG_REJECT':
        if need(2):
            return NEED_MORE
        rej, reason = struct.unpack('>BB', buf[pos:pos + 2])
        return ({'t': kind, 'rej_msg_id': rej, 'reason': reason}, 3)
    if kind == 'XFER_ACK':
        if need(17):
            return NEED_MORE
        flags, tid, length = struct.unpack('>BQQ', buf[pos:pos + 17])
        return ({'t': kind, 'flags': flags, 'id': tid, 'length': length}, 18)
    if kind == 'XFER_REFUSE':
        if need(9):
            return NEED_MORE
        reason, tid = struct.unpack('>BQ', buf[pos:pos + 9])
        return ({'t': kind, 'reason': reason, 'id': tid}, 10)
    if kind == 'SESS_INIT':
        if need(20):
            return NEED_MORE
        keepalive, seg_mru, xfer_mru, nlen = struct.unpack('>HQQH', buf[pos:pos + 20])
        pos += 20
        if need(nlen + 4):
            return NEED_MORE
        raw = bytes(buf[pos:pos + nlen])
        pos += nlen
        (elen,) = struct.unpack('>I', buf[pos:pos + 4])
        pos += 4
        if need(elen):
            return NEED_MORE
        ext = _parse_ext(buf[pos:pos + elen])
        pos += elen
        try:
            nodeid = raw.decode('utf-8')
        except UnicodeDecodeError:
            raise Invalid('node ID is not UTF-8')
        return ({'t': kind, 'keepalive': keepalive, 'segment_mru': seg_mru, 'transfer_mru': xfer_mru,
                 'nodeid': nodeid, 'ext': ext}, pos)
    if kind == 'XFER_SEGMENT':
        if need(9):
            return NEED_MORE
        flags, tid = struct.unpack('>BQ', buf[pos:pos + 9])
        pos += 9
        msg = {'t': kind, 'flags': flags, 'id': tid}
        if flags & SEG_START:
            if need(4):
                return NEED_MORE
            (elen,) = struct.unpack('>I', buf[pos:pos + 4])
            pos += 4
            if need(elen):
                return NEED_MORE
            msg['ext'] = _parse_ext(buf[pos:pos + elen])
            pos += elen
        if need(8):
            return NEED_MORE
        (dlen,) = struct.unpack('>Q', buf[pos:pos + 8])
        pos += 8
        if need(dlen):
            return NEED_MORE
        msg['data'] = bytes(buf[pos:pos + dlen]).hex()
        pos += dlen
        return (msg, pos)
    raise Invalid('unhandled')


def parse_stream(buf, expect_contact=True):
    ''' Parse as much as possible.  :return: (messages, consumed, status) where
    status is 'ok' (buffer ends on a message boundary), 'partial' or 'invalid:<why>'.
    Each message gets 'end' = stream offset just after its last octet. '''
    msgs = []
    pos = 0
    buf = bytes(buf)
    in_contact = not expect_contact
    while pos < len(buf):
        try:
            res = parse_message(buf[pos:]) if in_contact else parse_contact(buf[pos:])
        except Invalid as err:
            return msgs, pos, 'invalid:%s' % err
        if res == NEED_MORE:
            return msgs, pos, 'partial'
        msg, used = res
        pos += used
        msg = dict(msg)
        msg['end'] = pos
        msgs.append(msg)
        in_contact = True
    return msgs, pos, 'ok'


def total_length_of(msg):
    ''' Value of the Transfer Length extension of a START segment, or None. '''
    for ext in msg.get('ext', []):
        if ext['type'] == EXT_TRANSFER_LENGTH and len(ext['value']) == 16:
            return struct.unpack('>Q', bytes.fromhex(ext['value']))[0]
    return None
