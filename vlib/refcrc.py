''' Bit-serial CRC-16/X.25 and CRC-32C (Castagnoli) straight from the
polynomials; deliberately different code from shims/crcmod. '''


def _bitserial(data, width, poly, init, xorout):
    ''' Reflected-in/reflected-out CRC computed one bit at a time, MSB-first
    register with explicitly reflected input and output. '''
    mask = (1 << width) - 1
    top = 1 << (width - 1)
    reg = init
    for byte in bytes(data):
        # reflect the input byte
        rbyte = int('{:08b}'.format(byte)[::-1], 2)
        reg ^= rbyte << (width - 8)
        for _ in range(8):
            if reg & top:
                reg = ((reg << 1) ^ poly) & mask
            else:
                reg = (reg << 1) & mask
    # reflect the output
    reg = int(('{:0%db}' % width).format(reg)[::-1], 2)
    return reg ^ xorout


def crc16_x25(data):
    return _bitserial(data, 16, 0x1021, 0xFFFF, 0xFFFF)


def crc32c(data):
    return _bitserial(data, 32, 0x1EDC6F41, 0xFFFFFFFF, 0xFFFFFFFF)


def selftest():
    assert crc16_x25(b'123456789') == 0x906E
    assert crc32c(b'123456789') == 0xE3069283
