''' Independent BTP-U message-set codec (written from the draft's message layout, not from the repository). '''
import struct


def ref_encode(msg):
    ''' msg: {'type': int, 'hints': [[hint_type, hex], ...], 'body': hex} '''
    hints = b''
    for idx, (htype, data) in enumerate(msg.get('hints', [])):
        more = 1 if idx < len(msg['hints']) - 1 else 0
        raw = bytes.fromhex(data)
        hints += bytes([(htype << 1) | more, len(raw)]) + raw
    body = bytes.fromhex(msg['body'])
    length = len(hints) + len(body)
    flags = 0x8 if msg.get('hints') else 0
    word = (flags << 20) | length
    return bytes([msg['type']]) + struct.pack('>I', word)[1:] + hints + body


def ref_parse(frame):
    ''' :return: list of messages (same dict form); raises ValueError when malformed. '''
    out = []
    pos = 0
    while pos < len(frame):
        if frame[pos] == 0:
            if any(frame[pos:]):
                raise ValueError('non-zero octets inside the zero padding')
            break
        if pos + 4 > len(frame):
            raise ValueError('truncated message header')
        mtype = frame[pos]
        word = struct.unpack('>I', b'\x00' + frame[pos + 1:pos + 4])[0]
        flags = word >> 20
        length = word & 0xFFFFF
        pos += 4
        if pos + length > len(frame):
            raise ValueError('message length %d overruns the frame' % length)
        chunk = frame[pos:pos + length]
        pos += length
        hints = []
        hpos = 0
        if flags & 0x8:
            while True:
                if hpos + 2 > len(chunk):
                    raise ValueError('truncated hint')
                first, hlen = chunk[hpos], chunk[hpos + 1]
                hpos += 2
                if hpos + hlen > len(chunk):
                    raise ValueError('hint overruns the message')
                hints.append([first >> 1, chunk[hpos:hpos + hlen].hex()])
                hpos += hlen
                if not first & 1:
                    break
        out.append({'type': mtype, 'flags': flags, 'hints': hints, 'body': chunk[hpos:].hex()})
    return out
