''' Simulated TCP connection: two unidirectional pipes (DESIGN.md section 2.2).

Each pipe has in-flight octets (written, not yet delivered by the network),
readable octets (delivered, not yet read), a capacity bounding their sum and a
writer-closed flag (FIN follows the data).  The sender-side log of every octet
ever written, with virtual timestamps, is "the wire".
'''
import socket as _socket
from . import simloop

IO_IN = 1
IO_OUT = 4


class Pipe(object):
    def __init__(self, name, capacity=None):
        self.name = name
        self.capacity = capacity
        self.inflight = bytearray()
        self.readable = bytearray()
        self.writer_closed = False
        self.reader_closed = False
        self.log = bytearray()
        self.writes = []        # (t_ms, offset, length)
        self.full_events = 0    # times a send hit a full pipe
        self.partial_writes = 0
        self.deliveries = []    # stream offsets at which the network cut the stream (end of each read-able chunk)
        self.delivered_total = 0

    def free(self):
        if self.capacity is None:
            return 1 << 40
        return max(0, self.capacity - len(self.inflight) - len(self.readable))

    def deliver(self, count=None):
        ''' Network moves ``count`` (default all) octets from in-flight to readable. '''
        if count is None or count > len(self.inflight):
            count = len(self.inflight)
        if count <= 0:
            return 0
        self.readable += self.inflight[:count]
        del self.inflight[:count]
        self.delivered_total += count
        self.deliveries.append(self.delivered_total)
        return count

    def eof_visible(self):
        return self.writer_closed and not self.inflight and not self.readable


class SimSocket(object):
    ''' The subset of socket.socket that tcpcl.session.Connection uses. '''

    def __init__(self, tx, rx, peername, sockname=('10.0.0.1', 40000)):
        self.tx = tx
        self.rx = rx
        self._peername = peername
        self._sockname = sockname
        self.closed = False
        self.blocking = True
        self.family = _socket.AF_INET
        self.close_time = None
        self.recv_sizes = []

    # -- socket API -----------------------------------------------------------
    def setblocking(self, flag):
        self.blocking = bool(flag)

    def fileno(self):
        return -1 if self.closed else 1000 + id(self) % 1000

    def getpeername(self):
        return self._peername

    def getsockname(self):
        return self._sockname

    def recv(self, bufsize):
        if self.closed:
            raise OSError(9, 'Bad file descriptor')
        if self.rx.readable:
            data = bytes(self.rx.readable[:bufsize])
            del self.rx.readable[:len(data)]
            self.recv_sizes.append(len(data))
            return data
        if self.rx.eof_visible():
            return b''
        raise BlockingIOError(11, 'Resource temporarily unavailable')

    def send(self, data):
        if self.closed:
            raise OSError(9, 'Bad file descriptor')
        if self.tx.writer_closed:
            raise BrokenPipeError(32, 'Broken pipe')
        if self.tx.reader_closed:
            raise ConnectionResetError(104, 'Connection reset by peer')
        free = self.tx.free()
        if free <= 0:
            self.tx.full_events += 1
            raise BlockingIOError(11, 'Resource temporarily unavailable')
        data = bytes(data)
        take = data[:free]
        if len(take) < len(data):
            self.tx.partial_writes += 1
        self.tx.writes.append((simloop.CLOCK.now_ms, len(self.tx.log), len(take)))
        self.tx.log += take
        self.tx.inflight += take
        return len(take)

    def sendall(self, data):
        ''' socket.sendall on a non-blocking socket: writes what fits, then raises once the pipe is full (the
        caller cannot tell how much went out). '''
        data = bytes(data)
        while data:
            sent = self.send(data)
            data = data[sent:]

    def shutdown(self, _how):
        if self.closed:
            raise OSError(9, 'Bad file descriptor')
        self.tx.writer_closed = True

    def close(self):
        if self.closed:
            return
        self.closed = True
        self.close_time = simloop.CLOCK.now_ms
        self.tx.writer_closed = True
        self.rx.reader_closed = True

    # -- virtual loop readiness -----------------------------------------------
    def _sim_ready(self, cond):
        if self.closed:
            return False
        ready = False
        if cond & IO_IN:
            ready = ready or bool(self.rx.readable) or self.rx.eof_visible()
        if cond & IO_OUT:
            ready = ready or self.tx.free() > 0 or self.tx.reader_closed or self.tx.writer_closed
        return ready


class Link(object):
    ''' A TCP connection between endpoint 'A' (active) and 'B' (passive). '''

    def __init__(self, cap_ab=None, cap_ba=None, addr_a='10.0.0.1', addr_b='10.0.0.2', port_b=4556):
        self.ab = Pipe('A>B', cap_ab)
        self.ba = Pipe('B>A', cap_ba)
        self.sock_a = SimSocket(self.ab, self.ba, (addr_b, port_b), (addr_a, 40000))
        self.sock_b = SimSocket(self.ba, self.ab, (addr_a, 40000), (addr_b, port_b))

    def pipe(self, direction):
        return self.ab if direction == 'ab' else self.ba


class Network(object):
    ''' Simulated IP network for whole agents: listening sockets, connections made by socket.connect(). '''

    def __init__(self):
        self.listeners = {}     # (addr, port) -> NetSocket
        self.links = []         # every connection ever made: dict(link=, a=(addr, port), b=(addr, port), t_ms=)
        self.refused = []
        self.local_addr = {}    # id(module facade) -> address its sockets connect from
        self.auto_deliver = True

    def facade(self, local_address):
        ''' A stand-in for the ``socket`` module as seen by one host. '''
        return _SocketModule(self, local_address)

    def pump(self):
        ''' Move everything in flight to the readers.  :return: True if something moved. '''
        moved = False
        for ent in self.links:
            link = ent['link']
            if link.ab.deliver() or link.ba.deliver():
                moved = True
        return moved


class NetSocket(SimSocket):
    ''' socket.socket() of a simulated host: unconnected at first, then a listener or one end of a Link. '''

    def __init__(self, net, local_address, family):
        SimSocket.__init__(self, None, None, None, (local_address, 0))
        self.net = net
        self.family = family
        self.local_address = local_address
        self.listening = False
        self.backlog = []
        self.bound = None

    def bind(self, addr):
        self.bound = (addr[0] or self.local_address, addr[1])
        self._sockname = self.bound

    def listen(self, _backlog=1):
        key = self.bound
        if key in self.net.listeners:
            raise OSError(98, 'Address already in use')
        self.listening = True
        self.net.listeners[key] = self

    def connect(self, addr):
        addr = (addr[0], addr[1])
        lsn = self.net.listeners.get(addr) or self.net.listeners.get(('0.0.0.0', addr[1]))
        if lsn is None or lsn.closed:
            self.net.refused.append(addr)
            raise ConnectionRefusedError(111, 'Connection refused')
        port = 40000 + len(self.net.links)
        link = Link(addr_a=self.local_address, addr_b=addr[0], port_b=addr[1])
        self.tx, self.rx = link.ab, link.ba
        self._peername = addr
        self._sockname = (self.local_address, port)
        other = NetSocket(self.net, addr[0], self.family)
        other.tx, other.rx = link.ba, link.ab
        other._peername = (self.local_address, port)
        other._sockname = addr
        link.sock_a, link.sock_b = self, other
        self.net.links.append(dict(link=link, a=self._sockname, b=addr, t_ms=simloop.CLOCK.now_ms))
        lsn.backlog.append(other)

    def accept(self):
        if not self.backlog:
            raise BlockingIOError(11, 'Resource temporarily unavailable')
        sock = self.backlog.pop(0)
        return sock, sock._peername

    def shutdown(self, how):
        if self.listening:
            return
        if self.tx is None:
            raise OSError(107, 'Transport endpoint is not connected')
        SimSocket.shutdown(self, how)

    def close(self):
        if self.listening:
            self.closed = True
            if self.net.listeners.get(self.bound) is self:
                del self.net.listeners[self.bound]
            for sock in self.backlog:
                sock.close()
            return
        if self.tx is None:
            self.closed = True
            return
        SimSocket.close(self)

    def _sim_ready(self, cond):
        if self.listening:
            return bool(cond & IO_IN) and bool(self.backlog) and not self.closed
        if self.tx is None:
            return False
        return SimSocket._sim_ready(self, cond)


class _SocketModule(object):
    def __init__(self, net, local_address):
        self._net = net
        self._local = local_address

    def socket(self, family=_socket.AF_INET, _type=_socket.SOCK_STREAM, _proto=0):
        return NetSocket(self._net, self._local, family)

    def __getattr__(self, name):
        return getattr(_socket, name)
