''' Simulated TCP connection: two unidirectional pipes (DESIGN.md section 2.2).

Each pipe has in-flight octets (written, not yet delivered by the network),
readable octets (delivered, not yet read), a capacity bounding their sum and a
writer-closed flag (FIN follows the data).  The sender-side log of every octet
ever written, with virtual timestamps, is "the wire".
'''
import socket as _socket
from . import simloop

IO_IN = 1
IO_OUT = 4


class Pipe(object):
    def __init__(self, name, capacity=None):
        self.name = name
        self.capacity = capacity
        self.inflight = bytearray()
        self.readable = bytearray()
        self.writer_closed = False
        self.reader_closed = False
        self.log = bytearray()
        self.writes = []        # (t_ms, offset, length)
        self.full_events = 0    # times a send hit a full pipe
        self.partial_writes = 0
        self.deliveries = []    # stream offsets at which the network cut the stream (end of each read-able chunk)
        self.delivered_total = 0

    def free(self):
        if self.capacity is None:
            return 1 << 40
        return max(0, self.capacity - len(self.inflight) - len(self.readable))

    def deliver(self, count=None):
        ''' Network moves ``count`` (default all) octets from in-flight to readable. '''
        if count is None or count > len(self.inflight):
            count = len(self.inflight)
        if count <= 0:
            return 0
        self.readable += self.inflight[:count]
        del self.inflight[:count]
        self.delivered_total += count
        self.deliveries.append(self.delivered_total)
        return count

    def eof_visible(self):
        return self.writer_closed and not self.inflight and not self.readable


class SimSocket(object):
    ''' The subset of socket.socket that tcpcl.session.Connection uses. '''

    def __init__(self, tx, rx, peername, sockname=('10.0.0.1', 40000)):
        self.tx = tx
        self.rx = rx
        self._peername = peername
        self._sockname = sockname
        self.closed = False
        self.blocking = True
        self.family = _socket.AF_INET
        self.close_time = None
        self.recv_sizes = []

    # -- socket API -----------------------------------------------------------
    def setblocking(self, flag):
        self.blocking = bool(flag)

    def fileno(self):
        return -1 if self.closed else 1000 + id(self) % 1000

    def getpeername(self):
        return self._peername

    def getsockname(self):
        return self._sockname

    def recv(self, bufsize):
        if self.closed:
            raise OSError(9, 'Bad file descriptor')
        if self.rx.readable:
            data = bytes(self.rx.readable[:bufsize])
            del self.rx.readable[:len(data)]
            self.recv_sizes.append(len(data))
            return data
        if self.rx.eof_visible():
            return b''
        raise BlockingIOError(11, 'Resource temporarily unavailable')

    def send(self, data):
        if self.closed:
            raise OSError(9, 'Bad file descriptor')
        if self.tx.writer_closed:
            raise BrokenPipeError(32, 'Broken pipe')
        if self.tx.reader_closed:
            raise ConnectionResetError(104, 'Connection reset by peer')
        free = self.tx.free()
        if free <= 0:
            self.tx.full_events += 1
            raise BlockingIOError(11, 'Resource temporarily unavailable')
        data = bytes(data)
        take = data[:free]
        if len(take) < len(data):
            self.tx.partial_writes += 1
        self.tx.writes.append((simloop.CLOCK.now_ms, len(self.tx.log), len(take)))
        self.tx.log += take
        self.tx.inflight += take
        return len(take)

    def sendall(self, data):
        ''' socket.sendall on a non-blocking socket: writes what fits, then raises once the pipe is full (the
        caller cannot tell how much went out). '''
        data = bytes(data)
        while data:
            sent = self.send(data)
            data = data[sent:]

    def shutdown(self, _how):
        if self.closed:
            raise OSError(9, 'Bad file descriptor')
        self.tx.writer_closed = True

    def close(self):
        if self.closed:
            return
        self.closed = True
        self.close_time = simloop.CLOCK.now_ms
        self.tx.writer_closed = True
        self.rx.reader_closed = True

    # -- virtual loop readiness -----------------------------------------------
    def _sim_ready(self, cond):
        if self.closed:
            return False
        ready = False
        if cond & IO_IN:
            ready = ready or bool(self.rx.readable) or self.rx.eof_visible()
        if cond & IO_OUT:
            ready = ready or self.tx.free() > 0 or self.tx.reader_closed or self.tx.writer_closed
        return ready


class Link(object):
    ''' A TCP connection between endpoint 'A' (active) and 'B' (passive). '''

    def __init__(self, cap_ab=None, cap_ba=None, addr_a='10.0.0.1', addr_b='10.0.0.2', port_b=4556):
        self.ab = Pipe('A>B', cap_ab)
        self.ba = Pipe('B>A', cap_ba)
        self.sock_a = SimSocket(self.ab, self.ba, (addr_b, port_b), (addr_a, 40000))
        self.sock_b = SimSocket(self.ba, self.ab, (addr_a, 40000), (addr_b, port_b))

    def pipe(self, direction):
        return self.ab if direction == 'ab' else self.ba
