''' Byte-level CBOR reader/writer written from RFC 8949 (independent of cbor2).

The reader keeps what a value-level decoder throws away: the width of every
head, definite vs. indefinite length and the octet span of every item, so
that RFC 9171 framing rules are checkable on the wire.
'''
import struct


class CborError(ValueError):
    pass


class Item(object):
    __slots__ = ('major', 'ai', 'arg', 'start', 'end', 'indef', 'value', 'shortest')

    def __init__(self):
        self.major = None
        self.ai = None
        self.arg = None
        self.start = None
        self.end = None
        self.indef = False
        self.value = None
        self.shortest = True

    def py(self):
        ''' Plain Python value (ints, bytes, str, list, dict-as-pairs, tags as ('tag',n,v)). '''
        if self.major in (0, 1, 2, 3):
            return self.value
        if self.major == 4:
            return [sub.py() for sub in self.value]
        if self.major == 5:
            return [(k.py(), v.py()) for k, v in self.value]
        if self.major == 6:
            return ('tag', self.arg, self.value.py())
        return self.value

    def all_shortest(self):
        if not self.shortest:
            return False
        if self.major == 4:
            return all(sub.all_shortest() for sub in self.value)
        if self.major == 5:
            return all(k.all_shortest() and v.all_shortest() for k, v in self.value)
        if self.major == 6:
            return self.value.all_shortest()
        return True


class Simple(object):
    def __init__(self, num):
        self.num = num

    def __eq__(self, other):
        return isinstance(other, Simple) and other.num == self.num

    def __repr__(self):
        return 'simple(%d)' % self.num


BREAK = object()


def _head(data, pos):
    if pos >= len(data):
        raise CborError('truncated at %d' % pos)
    first = data[pos]
    major = first >> 5
    ai = first & 0x1f
    pos += 1
    shortest = True
    if ai < 24:
        arg = ai
    elif ai == 24:
        if pos + 1 > len(data):
            raise CborError('truncated head')
        arg = data[pos]
        pos += 1
        shortest = arg >= 24
    elif ai == 25:
        if pos + 2 > len(data):
            raise CborError('truncated head')
        arg = struct.unpack('>H', data[pos:pos + 2])[0]
        pos += 2
        shortest = arg >= 2 ** 8
    elif ai == 26:
        if pos + 4 > len(data):
            raise CborError('truncated head')
        arg = struct.unpack('>I', data[pos:pos + 4])[0]
        pos += 4
        shortest = arg >= 2 ** 16
    elif ai == 27:
        if pos + 8 > len(data):
            raise CborError('truncated head')
        arg = struct.unpack('>Q', data[pos:pos + 8])[0]
        pos += 8
        shortest = arg >= 2 ** 32
    elif ai == 31:
        arg = None
    else:
        raise CborError('reserved additional info %d' % ai)
    return major, ai, arg, pos, shortest


def parse(data, pos=0, allow_break=False):
    ''' Parse one item starting at pos.  :return: Item (item.end is the next offset). '''
    item = Item()
    item.start = pos
    major, ai, arg, pos, shortest = _head(data, pos)
    item.major, item.ai, item.arg, item.shortest = major, ai, arg, shortest
    if major == 7:
        if ai == 31:
            if not allow_break:
                raise CborError('unexpected break at %d' % item.start)
            item.value = BREAK
        elif ai == 20:
            item.value = False
        elif ai == 21:
            item.value = True
        elif ai == 22:
            item.value = None
        elif ai == 23:
            item.value = Simple(23)
        elif ai < 24:
            item.value = Simple(ai)
        elif ai == 24:
            item.value = Simple(arg)
        elif ai == 25:
            item.value = ('float16', arg)
            item.shortest = True
        elif ai == 26:
            item.value = struct.unpack('>f', struct.pack('>I', arg))[0]
            item.shortest = True
        elif ai == 27:
            item.value = struct.unpack('>d', struct.pack('>Q', arg))[0]
            item.shortest = True
        item.end = pos
        return item
    if major == 0:
        if arg is None:
            raise CborError('indefinite integer')
        item.value = arg
    elif major == 1:
        if arg is None:
            raise CborError('indefinite integer')
        item.value = -1 - arg
    elif major in (2, 3):
        if arg is None:
            item.indef = True
            chunks = []
            while True:
                sub = parse(data, pos, allow_break=True)
                pos = sub.end
                if sub.value is BREAK:
                    break
                if sub.major != major or sub.indef:
                    raise CborError('bad chunk in indefinite string')
                chunks.append(sub.value)
            item.value = b''.join(chunks) if major == 2 else ''.join(chunks)
        else:
            if pos + arg > len(data):
                raise CborError('truncated string at %d' % item.start)
            raw = bytes(data[pos:pos + arg])
            pos += arg
            if major == 3:
                try:
                    item.value = raw.decode('utf-8')
                except UnicodeDecodeError:
                    raise CborError('invalid UTF-8 in text string')
            else:
                item.value = raw
    elif major == 4:
        subs = []
        if arg is None:
            item.indef = True
            while True:
                sub = parse(data, pos, allow_break=True)
                pos = sub.end
                if sub.value is BREAK and sub.major == 7:
                    break
                subs.append(sub)
        else:
            for _ in range(arg):
                sub = parse(data, pos)
                pos = sub.end
                subs.append(sub)
        item.value = subs
    elif major == 5:
        pairs = []
        if arg is None:
            item.indef = True
            while True:
                key = parse(data, pos, allow_break=True)
                pos = key.end
                if key.value is BREAK and key.major == 7:
                    break
                val = parse(data, pos)
                pos = val.end
                pairs.append((key, val))
        else:
            for _ in range(arg):
                key = parse(data, pos)
                pos = key.end
                val = parse(data, pos)
                pos = val.end
                pairs.append((key, val))
        item.value = pairs
    elif major == 6:
        if arg is None:
            raise CborError('indefinite tag')
        sub = parse(data, pos)
        pos = sub.end
        item.value = sub
    item.end = pos
    return item


def parse_all(data):
    ''' Parse a CBOR sequence covering the whole buffer. '''
    items = []
    pos = 0
    while pos < len(data):
        item = parse(data, pos)
        pos = item.end
        items.append(item)
    return items


# --- encoder (shortest-form, definite) -------------------------------------------

def head(major, arg):
    if arg < 24:
        return bytes([(major << 5) | arg])
    if arg < 2 ** 8:
        return bytes([(major << 5) | 24, arg])
    if arg < 2 ** 16:
        return bytes([(major << 5) | 25]) + struct.pack('>H', arg)
    if arg < 2 ** 32:
        return bytes([(major << 5) | 26]) + struct.pack('>I', arg)
    if arg < 2 ** 64:
        return bytes([(major << 5) | 27]) + struct.pack('>Q', arg)
    raise CborError('integer too large')


class Tag(object):
    def __init__(self, num, value):
        self.num = num
        self.value = value


def enc(val):
    ''' Encode ints, bytes, str, list, dict (insertion order), bool, None, Tag. '''
    if val is True:
        return b'\xf5'
    if val is False:
        return b'\xf4'
    if val is None:
        return b'\xf6'
    if isinstance(val, int):
        if val >= 0:
            return head(0, val)
        return head(1, -1 - val)
    if isinstance(val, (bytes, bytearray)):
        return head(2, len(val)) + bytes(val)
    if isinstance(val, str):
        raw = val.encode('utf-8')
        return head(3, len(raw)) + raw
    if isinstance(val, (list, tuple)):
        return head(4, len(val)) + b''.join(enc(v) for v in val)
    if isinstance(val, dict):
        return head(5, len(val)) + b''.join(enc(k) + enc(v) for k, v in val.items())
    if isinstance(val, Tag):
        return head(6, val.num) + enc(val.value)
    raise CborError('cannot encode %r' % (val,))


def enc_canonical_map(mapping):
    ''' Deterministic (bytewise-sorted keys) map encoding, RFC 8949 4.2.1. '''
    pairs = sorted((enc(k), enc(v)) for k, v in mapping.items())
    return head(5, len(pairs)) + b''.join(k + v for k, v in pairs)
