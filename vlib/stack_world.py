''' Whole nodes: a real bp.agent.Agent bound through the real bp.cla adaptor, over
the virtual message bus, to a real tcpcl.agent.Agent of its own, and the TCPCL
agents of different nodes connected by the simulated network.

Every process (BP agent, TCPCL agent) has its own main-loop context and its own
bus connection, as in a deployment.  The harness originates bundles at a node
(Agent.send_bundle), cuts connections, and lets everything run to quiescence.
Observed independently of the code: the octets of every TCP connection (parsed
with vlib.ref9174 into transfers, their bundles decoded with vlib.ref9171) and
the invocations of the recorder application (vlib.bp_world).
'''
import re
import time

import dbus

from . import boot, simloop, simnet, simudp, simether, refbtpu, tcpcl_world as tw, bp_world as bw, ref9174 as r74

boot.tcpcl()
uagent = simudp.install()
bagent = simether.install()
import udpcl.config  # noqa: E402
import btpu.config  # noqa: E402
import tcpcl.agent  # noqa: E402
import bp.agent  # noqa: E402
import bp.cla  # noqa: E402
import bp.config  # noqa: E402
from bp.util import BundleContainer  # noqa: E402

PORT = 4556


class _HostSockets(object):
    ''' ``socket`` as seen by tcpcl.agent: the local address is that of the host whose process is running. '''

    def __init__(self, world):
        self._world = world

    def socket(self, family=2, _type=1, _proto=0):
        host = self._world.host_of.get(simloop.current())
        if host is None:
            raise RuntimeError('socket() outside any simulated host')
        return simnet.NetSocket(self._world.net, host.address, family)

    def __getattr__(self, name):
        import socket
        return getattr(socket, name)


class Host(object):
    def __init__(self, world, index, routes, rx_routes, tcpcl_kwargs=None, udpcl_mtu=None, btpu_mtu=None):
        ''' routes: [(regex, next_node_index[, cl_type[, route mtu]])] ; rx_routes: [(regex, action)] '''
        self.world = world
        self.index = index
        self.node_id = 'dtn://n%d/' % index
        self.address = '10.0.0.%d' % index
        self.tcpcl_service = 'org.verif.n%d.tcpcl' % index
        self.bp_service = 'org.verif.n%d.bp' % index
        self.tctx = simloop.Context('n%d-tcpcl' % index)
        self.bctx = simloop.Context('n%d-bp' % index)
        world.host_of[self.tctx] = self
        world.host_of[self.bctx] = self
        kwargs = dict(bus_service=self.tcpcl_service)
        kwargs.update(tcpcl_kwargs or {})
        self.tcfg = tw.make_config(self.node_id, **kwargs)
        with simloop.entered(self.tctx):
            self.tcpcl = tcpcl.agent.Agent(self.tcfg)
            self.tcpcl.listen(self.address, PORT)
        # the UDPCL agent process of the node
        self.udpcl_service = 'org.verif.n%d.udpcl' % index
        self.uctx = simloop.Context('n%d-udpcl' % index)
        world.host_of[self.uctx] = self
        simudp.NET.ctx_hosts[self.uctx] = (self.address, 'n%d' % index)
        import io
        import json
        udoc = dict(node_id=self.node_id, bus_service=self.udpcl_service, init_listen=[dict(address=self.address, port=PORT)])
        if udpcl_mtu is not None:
            udoc['mtu_default'] = int(udpcl_mtu)
        self.ucfg = udpcl.config.Config()
        self.ucfg.from_file(io.StringIO(json.dumps({'udpcl': udoc})))
        with simloop.entered(self.uctx):
            self.udpcl = uagent.Agent(self.ucfg)
        # the BTP-U agent process of the node, on the one Ethernet segment all nodes share
        self.btpu_service = 'org.verif.n%d.btpu' % index
        self.ectx = simloop.Context('n%d-btpu' % index)
        world.host_of[self.ectx] = self
        self.mac = bytes([2, 0, 0, 0, 0, index])
        simether.NET.add_host(self.ectx, 'n%d' % index, {'eth0': self.mac})
        edoc = dict(node_id=self.node_id, bus_service=self.btpu_service, init_listen=[dict(ifname='eth0')])
        if btpu_mtu is not None:
            edoc['mtu_default'] = int(btpu_mtu)
        self.ecfg = btpu.config.Config()
        self.ecfg.from_file(io.StringIO(json.dumps({'btpu': edoc})))
        with simloop.entered(self.ectx):
            self.btpu = bagent.Agent(self.ecfg)
        tx_table = []
        for route in routes:
            pat, nxt = route[0], route[1]
            cl_type = route[2] if len(route) > 2 else 'tcpcl'
            mtu = route[3] if len(route) > 3 else None
            # (a route entry of the configuration file is handed to the adaptor as it is)
            entry = dict(eid_pattern=pat, next_nodeid='dtn://n%d/' % nxt, cl_type=cl_type, address='10.0.0.%d' % nxt, port=PORT)
            if cl_type == 'btpu':
                entry.update(address='02:00:00:00:00:%02x' % nxt, local_if='eth0')
                del entry['port']
            if mtu is not None:
                entry['mtu'] = int(mtu)
            tx_table.append(entry)
        bdoc = dict(node_id=self.node_id, bus_service=self.bp_service, tx_route_table=tx_table,
                    rx_route_table=[dict(eid_pattern=pat, action=action) for pat, action in rx_routes])
        cfg = bp.config.Config()
        cfg.from_file(io.StringIO(json.dumps({'bp': bdoc})))
        self.bcfg = cfg
        with simloop.entered(self.bctx):
            self.bp = bp.agent.Agent(cfg)
            self.bp.cl_attach('tcpcl', self.tcpcl_service)
            self.bp.cl_attach('udpcl', self.udpcl_service)
            self.bp.cl_attach('btpu', self.btpu_service)
        self.send_errors = []
        # what the adaptors hand to the BP agent (instance wrappers: harness-side observation)
        self.handed = []
        for cltype in ('tcpcl', 'udpcl', 'btpu'):
            adaptor = self.bp._cl_agent[cltype]
            real = adaptor.recv_bundle_finish

            def finish(data, metadata, _real=real, _cl=cltype):
                self.handed.append((_cl, bytes(data)))
                return _real(data, metadata)
            adaptor.recv_bundle_finish = finish

    @property
    def adaptor(self):
        return self.bp._cl_agent['tcpcl']

    def originate(self, bundle_obj):
        ''' Agent.send_bundle with a repo Bundle object. '''
        ctr = BundleContainer(bundle_obj)
        with simloop.entered(self.bctx):
            try:
                self.bp.send_bundle(ctr)
            except Exception as err:
                self.send_errors.append(err)
                return err
        return None

    def contacts(self):
        return list(self.tcpcl._handlers)

    def records(self, deliveries_only=True):
        out = [rec for rec in bw.RECORDS if rec['agent'] is self.bp]
        if deliveries_only:
            out = [rec for rec in out if rec['deliver'] and not rec['fragment']]
        return out

    def escapes(self):
        return list(self.tctx.escapes) + list(self.bctx.escapes) + list(self.uctx.escapes) + list(self.ectx.escapes)


class StackWorld(object):
    def __init__(self, specs, tcpcl_kwargs=None, udpcl_mtu=None, btpu_mtu=None, netfault=None):
        ''' specs: per host (index from 1) dict(routes=[(regex, next index)], rx_routes=[(regex, action)]) '''
        self.netfault = netfault      # impairment of the datagram networks (UDP, Ethernet), see _release
        self._limbo = []
        self.net_releases = []
        self.net_duplicated = 0
        self.net_reordered = 0
        bw.reset()
        dbus.RECORDER.reset()
        simudp.NET.reset()
        simether.NET.reset()
        self.net = simnet.Network()
        self.host_of = {}
        self._real_socket = tcpcl.agent.socket
        self._real_sleep = time.sleep
        tcpcl.agent.socket = _HostSockets(self)
        time.sleep = lambda _s: None     # bp.cla polls a new contact with time.sleep(0.1)
        self.hosts = {}
        try:
            for index, spec in enumerate(specs, 1):
                self.hosts[index] = Host(self, index, spec.get('routes', ()), spec.get('rx_routes', ()), tcpcl_kwargs, udpcl_mtu, btpu_mtu)
        except Exception:
            self.close()
            raise

    def close(self):
        tcpcl.agent.socket = self._real_socket
        time.sleep = self._real_sleep

    def contexts(self):
        for host in self.hosts.values():
            yield host.tctx
            yield host.uctx
            yield host.ectx
            yield host.bctx

    def pump(self, rounds=2000):
        ''' Run network and processes until nothing moves.  :return: True if quiescent. '''
        for _ in range(rounds):
            moved = self.net.pump()
            for net in (simudp.NET, simether.NET):
                if self.netfault:
                    # an impaired datagram network: what is sent waits until the nodes have nothing else to do and is
                    # then delivered duplicated and / or out of order (_release)
                    self._limbo.extend((net, dgram) for dgram in net.inflight)
                    del net.inflight[:]
                while net.inflight:
                    net.deliver(net.inflight.pop(0))
                    moved = True
            for ctx in self.contexts():
                for _i in range(50):
                    if not ctx.iterate():
                        break
                    moved = True
            if not moved:
                # a UDPCL agent paces its datagrams with a timer: let time pass while one still has something to send
                due = self._udpcl_busy_due()
                if due is None:
                    if self._limbo:
                        self._release()
                        continue
                    return True
                simloop.advance_to(max(due, simloop.CLOCK.now_ms))
        return False

    def _release(self):
        ''' Deliver the datagrams / frames held back by the impaired network (``netfault``): 'dup' every one twice in
        a row, 'dup-late' all of them and then all of them again, 'reverse' in reverse order, 'reverse-dup' in reverse
        order and then once more in order, 'rotate' the first one last.  Nothing is lost and nothing is invented. '''
        batch, self._limbo = self._limbo, []
        fault = self.netfault
        if fault == 'dup':
            order = [item for item in batch for _ in (0, 1)]
        elif fault == 'dup-late':
            order = batch + batch
        elif fault == 'reverse':
            order = batch[::-1]
        elif fault == 'reverse-dup':
            order = batch[::-1] + batch
        elif fault == 'rotate':
            order = batch[1:] + batch[:1]
        else:
            raise ValueError('unknown netfault %r' % (fault,))
        self.net_releases.append(len(batch))
        if len(order) > len(batch):
            self.net_duplicated += len(batch)
        first = []
        for item in order:
            if not any(item is other for other in first):
                first.append(item)
        if len(first) != len(batch) or any(a is not b for a, b in zip(first, batch)):
            self.net_reordered += 1
        for net, dgram in order:
            net.deliver(dgram)

    def _udpcl_busy_due(self):
        dues = []
        for host in self.hosts.values():
            agent = host.udpcl
            busy = bool(agent._tx_queue)
            for wait in agent._send_wait.values():
                if wait.cur_item is not None or wait.tx_item_queue or wait.pri_item_queue or wait.cur_dgram is not None:
                    busy = True
            if busy and host.uctx.next_due() is not None:
                dues.append(host.uctx.next_due())
        return min(dues) if dues else None

    def advance(self, ms):
        ''' Let virtual time pass, firing timers in order. '''
        target = simloop.CLOCK.now_ms + ms
        while True:
            dues = [c.next_due() for c in self.contexts()]
            dues = [d for d in dues if d is not None and d <= target]
            if not dues:
                break
            simloop.advance_to(max(min(dues), simloop.CLOCK.now_ms))
            self.pump()
        # (pump() lets time pass while a UDPCL agent paces datagrams: the clock may be beyond the target already)
        simloop.advance_to(max(target, simloop.CLOCK.now_ms))
        return self.pump()

    def transfers(self):
        ''' Every transfer on every TCP connection, from the octets written: list of
        dict(src=host index, dst=host index, link=n, data=bytes, complete=bool). '''
        out = []
        by_addr = dict((h.address, h.index) for h in self.hosts.values())
        for num, ent in enumerate(self.net.links):
            link = ent['link']
            for pipe, src, dst in ((link.ab, ent['a'][0], ent['b'][0]), (link.ba, ent['b'][0], ent['a'][0])):
                msgs, _rest, _err = r74.parse_stream(bytes(pipe.log), expect_contact=True)
                cur = {}
                for msg in msgs:
                    if msg['t'] != 'XFER_SEGMENT':
                        continue
                    if msg['flags'] & 2:
                        cur[msg['id']] = bytearray()
                    buf = cur.setdefault(msg['id'], bytearray())
                    buf += bytes.fromhex(msg['data'])
                    if msg['flags'] & 1:
                        out.append(dict(src=by_addr.get(src), dst=by_addr.get(dst), link=num, data=bytes(buf), complete=True,
                                        id=msg['id']))
                        del cur[msg['id']]
                for tid, buf in cur.items():
                    out.append(dict(src=by_addr.get(src), dst=by_addr.get(dst), link=num, data=bytes(buf), complete=False, id=tid))
        return out

    def udp_bundles(self):
        ''' Every bundle carried by UDPCL, from the datagrams sent (whole-bundle datagrams and reassembled
        transfers): same form as transfers(); link = -1 - (index of the last datagram). '''
        from . import udpcl_machine as um
        out = []
        by_addr = dict((h.address, h.index) for h in self.hosts.values())
        parts = {}
        for num, dgram in enumerate(simudp.NET.sent_log):
            src, dst = by_addr.get(dgram['src'][0]), by_addr.get(dgram['dst'][0])
            kind = um.parse_segment(dgram['data'])
            if kind[0] == 'bundle':
                out.append(dict(src=src, dst=dst, link=-1 - num, data=kind[1], complete=True, id=None))
            elif kind[0] == 'segment':
                _k, xid, total, offset, chunk = kind
                ent = parts.setdefault((src, dst, xid, total), {})
                if offset in ent:
                    # the same segment sent again: a second transmission of the transfer starts
                    if len(ent) and sum(len(c) for c in ent.values()) >= total:
                        out.append(dict(src=src, dst=dst, link=-1 - num, data=b''.join(ent[o] for o in sorted(ent)), complete=True, id=xid))
                    ent.clear()
                ent[offset] = chunk
        for (src, dst, xid, total), ent in parts.items():
            data = b''.join(ent[o] for o in sorted(ent))
            out.append(dict(src=src, dst=dst, link=-1, data=data, complete=len(data) == total, id=xid))
        return out

    def btpu_bundles(self):
        ''' Every bundle carried by BTP-U, from the Ethernet frames sent (independent parser): same form as transfers(). '''
        import struct
        out = []
        by_mac = dict((h.mac, h.index) for h in self.hosts.values())
        parts = {}
        for num, item in enumerate(simether.NET.sent_log):
            frame = item['frame']
            src, dst = by_mac.get(frame[6:12]), by_mac.get(frame[0:6])
            try:
                msgs = refbtpu.ref_parse(frame[14:])
            except ValueError:
                out.append(dict(src=src, dst=dst, link=-1000 - num, data=b'', complete=False, id=None))
                continue
            for msg in msgs:
                body = bytes.fromhex(msg['body'])
                if msg['type'] == 2:
                    out.append(dict(src=src, dst=dst, link=-1000 - num, data=body, complete=True, id=None))
                elif msg['type'] in (3, 4) and len(body) >= 8:
                    xnum, sidx = struct.unpack('>II', body[:8])
                    ent = parts.setdefault((src, dst, xnum), dict(segs={}, end=None, last=num))
                    ent['segs'][sidx] = body[8:]
                    ent['last'] = num
                    if msg['type'] == 4:
                        ent['end'] = sidx
        for (src, dst, xnum), ent in parts.items():
            whole = ent['end'] is not None and sorted(ent['segs']) == list(range(ent['end'] + 1))
            out.append(dict(src=src, dst=dst, link=-1000 - ent['last'], complete=whole, id=xnum,
                            data=b''.join(ent['segs'][i] for i in sorted(ent['segs']))))
        return out

    def escapes(self):
        out = []
        for host in self.hosts.values():
            out.extend(host.escapes())
        return out


# --- generated histories (used by C10 and C18) ----------------------------------------------------------------

def stack_ops():
    from hypothesis import strategies as st
    send = st.tuples(st.just('send'), st.sampled_from([1, 3]), st.sampled_from([1, 2, 3]), st.booleans(), st.sampled_from([0, 0, 1])).map(list)
    cut = st.tuples(st.sampled_from(['cut', 'close']), st.sampled_from([1, 2, 3])).map(list)
    wait = st.tuples(st.just('wait'), st.sampled_from([0, 1000, 40000])).map(list)
    return st.lists(st.one_of(send, send, send, cut, cut, wait), min_size=3, max_size=10)


NETFAULTS = ['dup', 'dup-late', 'reverse', 'reverse-dup', 'rotate']


def cases(netfault=False):
    ''' netfault: also draw an impairment of the datagram networks (for checks whose oracle allows a convergence layer
    to hand a bundle over twice: C10, C06; not C18, which judges the adaptor against the transfers on the wire). '''
    from hypothesis import strategies as st
    extra = {'netfault': st.sampled_from([None, None] + NETFAULTS)} if netfault else {}
    return st.fixed_dictionaries({'kind': st.just('stack'), 'ops': stack_ops(), 'keepalive': st.sampled_from([0, 0, 10]),
                                  'hops': st.lists(st.sampled_from(['tcpcl', 'tcpcl', 'udpcl', 'btpu']), min_size=2, max_size=2),
                                  'umtu': st.sampled_from([None, 100]), 'emtu': st.sampled_from([None, 100]),
                                  'rmtu': st.sampled_from([None, None, 150]),
                                  'size': st.sampled_from([8, 8, 300]), **extra})


def drive(case, out):
    ''' Three whole nodes in a line (n1 - n2 - n3); bundles originated at n1 / n3, TCPCL sessions terminated
    ('cut') or closed ('close') at a node in between, virtual time passing ('wait').
    :return: (world, info); the caller must world.close(). '''
    from . import bpconv, ref9171 as r
    hop12, hop23 = case.get('hops') or ['tcpcl', 'tcpcl']
    rmtu = case.get('rmtu')
    world = StackWorld([
        dict(routes=[('^dtn://n[23]/', 2, hop12, rmtu)], rx_routes=[('^dtn://n1/', 'deliver')]),
        dict(routes=[('^dtn://n1/', 1, hop12, rmtu), ('^dtn://n3/', 3, hop23, rmtu)],
             rx_routes=[('^dtn://n2/', 'deliver'), ('^dtn://n[13]/', 'forward')]),
        dict(routes=[('^dtn://n[12]/', 2, hop23, rmtu)], rx_routes=[('^dtn://n3/', 'deliver')]),
    ], tcpcl_kwargs=dict(keepalive_time=case.get('keepalive', 0)), udpcl_mtu=case.get('umtu'), btpu_mtu=case.get('emtu'),
        netfault=case.get('netfault'))
    out.label('stack-hops:%s+%s' % (hop12, hop23))
    if case.get('netfault'):
        out.label('stack-netfault:%s' % case['netfault'])
    if rmtu:
        out.label('stack-route-mtu')
    info = dict(sent={}, cut_after_traffic=False, resend_after_cut=False, closed=False)
    try:
        seq = 0
        carried = set()      # hosts whose sessions carried something before they were cut
        for op in case['ops']:
            if op[0] == 'send':
                _o, origin, dest, pump, rpt = op
                if dest == origin:
                    dest = 2
                seq += 1
                flags = (r.FLAG_RPT_RECEPTION | r.FLAG_RPT_FORWARD | r.FLAG_RPT_DELIVERY) if rpt else 0
                pri = dict(version=7, flags=flags, crc_type=1, dest=['dtn', '//n%d/svc' % dest], src=['dtn', '//n%d/app' % origin],
                           rpt=['dtn', '//n%d/' % origin] if rpt else ['dtn', 'none'], ts=[1000, seq], lifetime=3600000, frag=None)
                bundle = {'primary': pri, 'blocks': [dict(type=1, num=1, flags=0, crc_type=2,
                                                          data=((b'stack-%d-' % seq) * 60)[:case.get('size', 8)].hex())]}
                err = world.hosts[origin].originate(bpconv.to_repo(bundle))
                if err is not None:
                    out.fail('originate-raises:%s' % type(err).__name__, 'send_bundle at n%d raised %s: %s' % (origin, type(err).__name__, err))
                info['sent'][(('dtn', '//n%d/app' % origin), 1000, seq)] = dest
                if info['cut_after_traffic']:
                    info['resend_after_cut'] = True
                if pump:
                    world.pump()
                    carried.update([1, 2, 3])
            elif op[0] in ('cut', 'close'):
                host = world.hosts[op[1]]
                for hdl in host.contacts():
                    if op[0] == 'cut':
                        if hdl.get_session_state() == 'established':
                            tw.dbuscall(host.tctx, hdl, 'terminate', dbus.Byte(0))
                    else:
                        info['closed'] = True
                        tw.dbuscall(host.tctx, hdl, 'close')
                    if op[1] in carried:
                        info['cut_after_traffic'] = True
                world.pump()
            elif op[0] == 'wait':
                world.advance(op[1])
    except Exception:
        world.close()
        raise
    return world, info
