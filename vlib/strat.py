''' Hypothesis strategies producing plain-JSON "ref bundles" and parts. '''
from hypothesis import strategies as st
from . import ref9171

# values on both sides of every CBOR head-width boundary
BOUNDARY = [0, 1, 23, 24, 25, 255, 256, 257, 65535, 65536, 65537,
            2 ** 32 - 1, 2 ** 32, 2 ** 32 + 1, 2 ** 64 - 1]
BOUNDARY_SET = set(BOUNDARY)


def uints(maximum=2 ** 64 - 1):
    pool = [v for v in BOUNDARY if v <= maximum]
    return st.one_of(st.sampled_from(pool), st.integers(0, maximum), st.integers(0, min(maximum, 300)))


def dtn_times():
    ''' DTN times (milliseconds since 2000): any unsigned integer, with extra weight on times a datetime can hold
    (also entered as datetime objects / ISO text by C02) and on the spans in which the number of seconds needs one more
    bit than before while the milliseconds still fit a double's integer range comfortably (2004, 2008, 2017, 2034, 2068). '''
    spans = [st.integers(2 ** k * 1000, 2 ** (k + 10) - 1) for k in range(27, 32)]
    return st.one_of(uints(), st.integers(1, 253402300799999 - 946684800000), *spans)


def small_uints():
    return st.one_of(st.sampled_from([0, 1, 23, 24, 255, 256]), st.integers(0, 70000))


NODE_CHARS = 'abcdefghijklmnopqrstuvwxyz0123456789-._'
DEMUX_CHARS = "abcdefghijklmnopqrstuvwxyzABCXYZ0123456789-._~!$&'()*+,;=:@"


def node_names():
    return st.text(NODE_CHARS, min_size=1, max_size=10).filter(lambda s: s[0].isalnum())


def dtn_eids(extended=False):
    chars = DEMUX_CHARS + ('?#' if extended else '')
    demux = st.lists(st.text(chars, min_size=0, max_size=8), min_size=0, max_size=3).map('/'.join)
    return st.tuples(node_names(), demux).map(lambda t: ['dtn', '//%s/%s' % t])


def ipn_eids():
    return st.tuples(uints(), uints()).map(lambda t: ['ipn', t[0], t[1]])


def eids(extended=False, allow_none=True):
    opts = [dtn_eids(extended), ipn_eids(), st.sampled_from([['dtn', '//node/'], ['dtn', '//a/b'], ['ipn', 1, 0]])]
    if allow_none:
        opts.append(st.just(['dtn', 'none']))
    return st.one_of(*opts)


REPORT_FLAGS = [ref9171.FLAG_RPT_RECEPTION, ref9171.FLAG_RPT_FORWARD, ref9171.FLAG_RPT_DELIVERY,
                ref9171.FLAG_RPT_DELETION, ref9171.FLAG_STATUS_TIME]
OTHER_FLAGS = [ref9171.FLAG_NO_FRAGMENT, ref9171.FLAG_USER_ACK]


def flag_sets(choices):
    return st.lists(st.sampled_from(choices), unique=True, max_size=len(choices)).map(lambda fl: sum(fl))


# bits that RFC 9171 leaves reserved/unassigned: a node must carry them through unchanged
UNASSIGNED_BUNDLE_FLAGS = [0x08, 0x80, 0x100, 0x2000, 0x8000, 0x080000, 0x200000, 1 << 40]
UNASSIGNED_BLOCK_FLAGS = [0x08, 0x20, 0x40, 0x100]


@st.composite
def primaries(draw, fragment=None, admin=False, extended_eid=False):
    flags = draw(flag_sets(REPORT_FLAGS + OTHER_FLAGS))
    if draw(st.integers(0, 3)) == 0:
        flags |= draw(flag_sets(UNASSIGNED_BUNDLE_FLAGS))
    if admin:
        flags |= ref9171.FLAG_ADMIN
    is_frag = draw(st.booleans()) if fragment is None else fragment
    frag = None
    if is_frag:
        flags |= ref9171.FLAG_FRAGMENT
        frag = [draw(uints()), draw(uints())]
    return dict(version=7, flags=flags, crc_type=draw(st.sampled_from([0, 1, 2])),
                dest=draw(eids(extended_eid)), src=draw(eids(extended_eid)), rpt=draw(eids(extended_eid)),
                ts=[draw(dtn_times()), draw(uints())], lifetime=draw(uints()), frag=frag)


def payload_bytes(max_size=400):
    sizes = st.one_of(st.sampled_from([0, 1, 23, 24, 255, 256]), st.integers(0, max_size))
    return sizes.flatmap(lambda n: st.binary(min_size=n, max_size=n))


def big_payload_sizes():
    return st.sampled_from([65535, 65536, 65537, 70000])


BLOCK_FLAGS = [0x01, 0x02, 0x04, 0x10]


@st.composite
def ext_block_bodies(draw, extended_eid=False):
    ''' (type, data-hex) of an extension block. '''
    kind = draw(st.sampled_from(['prev', 'age', 'hop', 'unknown', 'unknown']))
    if kind == 'prev':
        return 6, ref9171.btsd_previous_node(draw(eids(extended_eid)))
    if kind == 'age':
        return 7, ref9171.btsd_age(draw(uints()))
    if kind == 'hop':
        return 10, ref9171.btsd_hop_count(draw(uints()), draw(uints()))
    tcode = draw(st.one_of(st.sampled_from([2, 3, 4, 5, 8, 9, 13, 23, 24, 192, 255, 256, 65535, 65536]),
                           st.integers(13, 2 ** 32)))
    if tcode in (1, 6, 7, 10, 11, 12):
        tcode = 193
    return tcode, draw(payload_bytes(60)).hex()


UNASSIGNED_REASONS = [17, 23, 24, 100, 255, 256, 65535]


@st.composite
def other_admin_records(draw):
    ''' An administrative record of a type this implementation does not know: [type code, any content]. '''
    from . import cborpull as cb
    rtype = draw(st.sampled_from([2, 3, 4, 7, 23, 24, 255, 65536]))
    content = draw(st.sampled_from([[], [1, 2, 3], {}, 0, b'\x01\x02', 'text', [[True], 5]]))
    return cb.enc([rtype, content]).hex()


@st.composite
def status_reports(draw, extended_eid=False):
    want_time = draw(st.booleans())
    status = []
    for _ in range(4):
        asserted = draw(st.booleans())
        if asserted and want_time and draw(st.booleans()):
            # DTN time 0 ("unknown") is what a clock-less reporter writes: make it frequent
            status.append([True, draw(st.one_of(st.just(0), uints(), dtn_times()))])
        else:
            status.append([asserted])
    reason = draw(st.sampled_from([0, 1, 2, 3, 4, 5, 6, 7, 8, 9, 10, 11, 12, 13, 14, 15, 16]))
    if draw(st.integers(0, 5)) == 0:
        # a reason code the registry has not assigned (yet): still an RFC 9171 unsigned integer
        reason = draw(st.sampled_from(UNASSIGNED_REASONS))
    frag = [draw(uints()), draw(uints())] if draw(st.booleans()) else None
    return ref9171.status_report(status, reason, draw(eids(extended_eid)), [draw(dtn_times()), draw(uints())], frag)


@st.composite
def bundles(draw, max_ext=3, admin=None, fragment=None, payload_max=400, extended_eid=False,
            crc_types=(0, 1, 2)):
    is_admin = draw(st.booleans()) if admin is None else admin
    pri = draw(primaries(fragment=fragment, admin=is_admin, extended_eid=extended_eid))
    pri['crc_type'] = draw(st.sampled_from(list(crc_types)))
    n_ext = draw(st.integers(0, max_ext))
    nums = draw(st.lists(st.one_of(st.integers(2, 30), st.sampled_from([23, 24, 255, 256, 65536, 2 ** 32])),
                         min_size=n_ext, max_size=n_ext, unique=True))
    blocks = []
    for num in nums:
        tcode, data = draw(ext_block_bodies(extended_eid))
        bflags = draw(flag_sets(BLOCK_FLAGS))
        if draw(st.integers(0, 4)) == 0:
            bflags |= draw(flag_sets(UNASSIGNED_BLOCK_FLAGS))
        blocks.append(dict(type=tcode, num=num, flags=bflags,
                           crc_type=draw(st.sampled_from(list(crc_types))), data=data))
    if is_admin:
        kind = draw(st.sampled_from(['status', 'status', 'status', 'status', 'other-type']))
        pdata = draw(status_reports(extended_eid)) if kind == 'status' else draw(other_admin_records())
        if pri['frag'] is not None and draw(st.booleans()):
            # a fragment of an administrative record carries a slice of the encoded record, not a record
            octets = bytes.fromhex(pdata)
            start = draw(st.integers(0, max(0, len(octets) - 1)))
            stop = draw(st.integers(start, len(octets)))
            pdata = octets[start:stop].hex()
    else:
        pdata = draw(payload_bytes(payload_max)).hex()
    blocks.append(dict(type=1, num=1, flags=draw(flag_sets(BLOCK_FLAGS)),
                       crc_type=draw(st.sampled_from(list(crc_types))), data=pdata))
    return {'primary': pri, 'blocks': blocks}


def hits_boundary(bundle):
    ''' True if some integer-valued field sits on a CBOR head-width boundary (>= 23). '''
    pri = bundle['primary']
    vals = [pri['ts'][0], pri['ts'][1], pri['lifetime']]
    if pri.get('frag'):
        vals += pri['frag']
    for eid in (pri['dest'], pri['src'], pri['rpt']):
        if eid[0] == 'ipn':
            vals += [eid[1], eid[2]]
    for blk in bundle['blocks']:
        vals += [blk['num'], blk['type'], len(blk['data']) // 2]
    return any(v in BOUNDARY_SET and v >= 23 for v in vals)
