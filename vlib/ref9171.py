''' Independent RFC 9171 bundle codec on top of vlib.cborpull.

Bundles are plain JSON-able dicts ("ref bundles"):

  {'primary': {'version': 7, 'flags': int, 'crc_type': 0|1|2,
               'dest': EID, 'src': EID, 'rpt': EID, 'ts': [time, seq],
               'lifetime': int, 'frag': None | [offset, total]},
   'blocks': [{'type': int, 'num': int, 'flags': int, 'crc_type': 0|1|2,
               'data': hex-string}, ...]}

  EID = ['dtn', 'none'] | ['dtn', '//node/demux'] | ['ipn', node, service]

decode() accepts exactly the RFC 9171 structure (section 4.1, 4.3.1, 4.3.2):
indefinite outer array, definite primary array of 8..11 items consistent with
flags and CRC type, definite canonical arrays of 5 or 6 items with 6 <=> CRC,
payload block (type 1, number 1) last, unique block numbers >= 1.
'''
from . import cborpull as cb
from . import refcrc

FLAG_FRAGMENT = 0x000001
FLAG_ADMIN = 0x000002
FLAG_NO_FRAGMENT = 0x000004
FLAG_USER_ACK = 0x000020
FLAG_STATUS_TIME = 0x000040
FLAG_RPT_RECEPTION = 0x004000
FLAG_RPT_FORWARD = 0x010000
FLAG_RPT_DELIVERY = 0x020000
FLAG_RPT_DELETION = 0x040000

BLKFLAG_REPLICATE = 0x01
BLKFLAG_STATUS_IF_FAIL = 0x02
BLKFLAG_DELETE_IF_FAIL = 0x04
BLKFLAG_REMOVE_IF_FAIL = 0x10

CRC_WIDTH = {1: 2, 2: 4}


class RefError(ValueError):
    ''' The octets are not an RFC 9171 bundle. '''


def crc_of(crc_type, data):
    if crc_type == 1:
        return refcrc.crc16_x25(data).to_bytes(2, 'big')
    if crc_type == 2:
        return refcrc.crc32c(data).to_bytes(4, 'big')
    raise RefError('bad CRC type %r' % crc_type)


# --- EIDs ------------------------------------------------------------------------

def eid_item(eid):
    if eid[0] == 'dtn':
        if eid[1] == 'none':
            return [1, 0]
        return [1, eid[1]]
    if eid[0] == 'ipn':
        return [2, [eid[1], eid[2]]]
    raise RefError('bad EID %r' % (eid,))


def eid_from_item(item):
    if item.major != 4 or item.indef or len(item.value) != 2:
        raise RefError('EID is not a definite 2-array')
    scheme, ssp = item.value
    if scheme.major != 0:
        raise RefError('EID scheme is not uint')
    if scheme.value == 1:
        if ssp.major == 0:
            if ssp.value != 0:
                raise RefError('dtn scheme with integer SSP other than 0')
            return ['dtn', 'none']
        if ssp.major == 3 and not ssp.indef:
            return ['dtn', ssp.value]
        raise RefError('dtn SSP is neither tstr nor 0')
    if scheme.value == 2:
        if ssp.major != 4 or ssp.indef or len(ssp.value) != 2 or any(x.major != 0 for x in ssp.value):
            raise RefError('ipn SSP is not [uint, uint]')
        return ['ipn', ssp.value[0].value, ssp.value[1].value]
    raise RefError('unknown EID scheme %r' % scheme.value)


def eid_text(eid):
    if eid[0] == 'dtn':
        return 'dtn:none' if eid[1] == 'none' else 'dtn:' + eid[1]
    return 'ipn:%d.%d' % (eid[1], eid[2])


def eid_parse(text):
    ''' Text form -> EID (only the RFC 9171 dtn/ipn grammar). '''
    if text == 'dtn:none':
        return ['dtn', 'none']
    if text.startswith('dtn:'):
        return ['dtn', text[4:]]
    if text.startswith('ipn:'):
        node, serv = text[4:].split('.')
        return ['ipn', int(node), int(serv)]
    raise RefError('unhandled EID text %r' % text)


# --- encoding ----------------------------------------------------------------------

def _primary_items(pri, crc_bytes):
    items = [pri.get('version', 7), pri['flags'], pri['crc_type'],
             eid_item(pri['dest']), eid_item(pri['src']), eid_item(pri['rpt']),
             [pri['ts'][0], pri['ts'][1]], pri['lifetime']]
    if pri.get('frag') is not None:
        items += [pri['frag'][0], pri['frag'][1]]
    if pri['crc_type'] != 0:
        items.append(crc_bytes)
    return items


def encode_primary(pri, crc_override=None):
    ctype = pri['crc_type']
    if ctype == 0:
        return cb.enc(_primary_items(pri, None))
    zero = bytes(CRC_WIDTH[ctype])
    pre = cb.enc(_primary_items(pri, zero))
    crc = crc_of(ctype, pre) if crc_override is None else crc_override
    return cb.enc(_primary_items(pri, crc))


def _block_items(blk, crc_bytes):
    items = [blk['type'], blk['num'], blk['flags'], blk['crc_type'], bytes.fromhex(blk['data'])]
    if blk['crc_type'] != 0:
        items.append(crc_bytes)
    return items


def encode_block(blk, crc_override=None):
    ctype = blk['crc_type']
    if ctype == 0:
        return cb.enc(_block_items(blk, None))
    zero = bytes(CRC_WIDTH[ctype])
    pre = cb.enc(_block_items(blk, zero))
    crc = crc_of(ctype, pre) if crc_override is None else crc_override
    return cb.enc(_block_items(blk, crc))


def encode(bundle):
    ''' Shortest-form deterministic encoding with correct CRCs. '''
    out = b'\x9f' + encode_primary(bundle['primary'])
    for blk in bundle['blocks']:
        out += encode_block(blk)
    return out + b'\xff'


# --- decoding ----------------------------------------------------------------------

def _uint(item, what):
    if item.major != 0:
        raise RefError('%s is not an unsigned integer' % what)
    return item.value


def _bstr(item, what):
    if item.major != 2 or item.indef:
        raise RefError('%s is not a definite byte string' % what)
    return item.value


def _check_crc(data, item, crc_type, crc_item):
    ''' CRC over the block's wire octets with the CRC value octets zeroed. '''
    width = CRC_WIDTH[crc_type]
    value = _bstr(crc_item, 'CRC value')
    if len(value) != width:
        raise RefError('CRC value has %d octets, type %d needs %d' % (len(value), crc_type, width))
    raw = bytearray(data[item.start:item.end])
    off = crc_item.end - width - item.start
    raw[off:off + width] = bytes(width)
    return crc_of(crc_type, bytes(raw)) == value


def decode(data, strict_shortest=False):
    ''' :return: ref bundle with extra keys: 'crc_ok' on primary and each block,
    'span' (start, end) octet ranges, 'shortest' (whole encoding deterministic). '''
    data = bytes(data)
    try:
        top = cb.parse(data, 0)
    except cb.CborError as err:
        raise RefError('not CBOR: %s' % err)
    if top.end != len(data):
        raise RefError('trailing octets after the bundle')
    if top.major != 4 or not top.indef:
        raise RefError('outer item is not an indefinite-length array')
    if data[:1] != b'\x9f' or data[-1:] != b'\xff':
        raise RefError('outer framing is not 0x9f ... 0xff')
    items = top.value
    if len(items) < 2:
        raise RefError('bundle needs a primary block and a payload block')

    pitem = items[0]
    if pitem.major != 4 or pitem.indef:
        raise RefError('primary block is not a definite array')
    pvals = pitem.value
    if not 8 <= len(pvals) <= 11:
        raise RefError('primary block has %d items' % len(pvals))
    pri = {}
    pri['version'] = _uint(pvals[0], 'version')
    if pri['version'] != 7:
        raise RefError('version is %d' % pri['version'])
    pri['flags'] = _uint(pvals[1], 'bundle flags')
    pri['crc_type'] = _uint(pvals[2], 'CRC type')
    if pri['crc_type'] not in (0, 1, 2):
        raise RefError('bad primary CRC type')
    pri['dest'] = eid_from_item(pvals[3])
    pri['src'] = eid_from_item(pvals[4])
    pri['rpt'] = eid_from_item(pvals[5])
    tsi = pvals[6]
    if tsi.major != 4 or tsi.indef or len(tsi.value) != 2:
        raise RefError('creation timestamp is not a definite 2-array')
    pri['ts'] = [_uint(tsi.value[0], 'creation time'), _uint(tsi.value[1], 'sequence number')]
    pri['lifetime'] = _uint(pvals[7], 'lifetime')
    is_frag = bool(pri['flags'] & FLAG_FRAGMENT)
    expect = 8 + (2 if is_frag else 0) + (1 if pri['crc_type'] else 0)
    if len(pvals) != expect:
        raise RefError('primary block has %d items, flags/CRC type require %d' % (len(pvals), expect))
    pri['frag'] = None
    if is_frag:
        pri['frag'] = [_uint(pvals[8], 'fragment offset'), _uint(pvals[9], 'total ADU length')]
    pri['crc_ok'] = True
    if pri['crc_type']:
        pri['crc_ok'] = _check_crc(data, pitem, pri['crc_type'], pvals[-1])
    pri['span'] = [pitem.start, pitem.end]

    blocks = []
    seen = set()
    for bitem in items[1:]:
        if bitem.major != 4 or bitem.indef:
            raise RefError('canonical block is not a definite array')
        bvals = bitem.value
        if len(bvals) not in (5, 6):
            raise RefError('canonical block has %d items' % len(bvals))
        blk = {}
        blk['type'] = _uint(bvals[0], 'block type')
        blk['num'] = _uint(bvals[1], 'block number')
        blk['flags'] = _uint(bvals[2], 'block flags')
        blk['crc_type'] = _uint(bvals[3], 'block CRC type')
        if blk['crc_type'] not in (0, 1, 2):
            raise RefError('bad block CRC type')
        if (len(bvals) == 6) != (blk['crc_type'] != 0):
            raise RefError('block has %d items with CRC type %d' % (len(bvals), blk['crc_type']))
        blk['data'] = _bstr(bvals[4], 'block-type-specific data').hex()
        blk['crc_ok'] = True
        if blk['crc_type']:
            blk['crc_ok'] = _check_crc(data, bitem, blk['crc_type'], bvals[5])
        blk['span'] = [bitem.start, bitem.end]
        blk['data_span'] = [bvals[4].end - len(bvals[4].value), bvals[4].end]
        if blk['num'] in seen:
            raise RefError('duplicate block number %d' % blk['num'])
        if blk['num'] == 0:
            raise RefError('block number 0 is reserved for the primary block')
        seen.add(blk['num'])
        blocks.append(blk)
    last = blocks[-1]
    if last['type'] != 1 or last['num'] != 1:
        raise RefError('last block is type %d number %d, not the payload block' % (last['type'], last['num']))
    if any(b['type'] == 1 for b in blocks[:-1]):
        raise RefError('more than one payload block')
    if any(b['num'] == 1 for b in blocks[:-1]):
        raise RefError('block number 1 used by a non-payload block')
    shortest = all(it.all_shortest() for it in items)
    if strict_shortest and not shortest:
        raise RefError('not shortest-form CBOR')
    return {'primary': pri, 'blocks': blocks, 'shortest': shortest}


def strip(bundle):
    ''' Drop the decoder's annotations: comparable with generated ref bundles. '''
    pri = {k: v for k, v in bundle['primary'].items() if k not in ('crc_ok', 'span')}
    pri.setdefault('version', 7)
    blocks = [{k: v for k, v in blk.items() if k not in ('crc_ok', 'span', 'data_span')} for blk in bundle['blocks']]
    return {'primary': pri, 'blocks': blocks}


def all_crc_ok(decoded):
    return decoded['primary']['crc_ok'] and all(b['crc_ok'] for b in decoded['blocks'])


def payload_block(bundle):
    return bundle['blocks'][-1]


# --- block-type-specific data -------------------------------------------------------

def btsd_previous_node(eid):
    return cb.enc(eid_item(eid)).hex()


def btsd_age(ms):
    return cb.enc(ms).hex()


def btsd_hop_count(limit, count):
    return cb.enc([limit, count]).hex()


def parse_hop_count(data_hex):
    item = cb.parse(bytes.fromhex(data_hex))
    if item.major != 4 or len(item.value) != 2:
        raise RefError('hop count BTSD is not a 2-array')
    return [_uint(item.value[0], 'hop limit'), _uint(item.value[1], 'hop count')]


def parse_previous_node(data_hex):
    item = cb.parse(bytes.fromhex(data_hex))
    return eid_from_item(item)


def parse_age(data_hex):
    item = cb.parse(bytes.fromhex(data_hex))
    return _uint(item, 'bundle age')


# --- administrative records ------------------------------------------------------------

def status_report(status, reason, subj_src, subj_ts, frag=None):
    ''' status: list of four [asserted] or [asserted, time] in the order
    received, forwarded, delivered, deleted.  :return: admin-record BTSD hex. '''
    rec = [[list(s) for s in status], reason, eid_item(subj_src), [subj_ts[0], subj_ts[1]]]
    if frag is not None:
        rec += [frag[0], frag[1]]
    return cb.enc([1, rec]).hex()


def parse_status_report(data_hex):
    ''' :return: dict(status=[[bool, time|None] x4], reason, src, ts, frag) '''
    try:
        item = cb.parse(bytes.fromhex(data_hex))
    except cb.CborError as err:
        raise RefError('admin record is not one CBOR item: %s' % err)
    if item.end != len(data_hex) // 2:
        raise RefError('trailing octets after admin record')
    if item.major != 4 or len(item.value) != 2:
        raise RefError('admin record is not a 2-array')
    rtype = _uint(item.value[0], 'record type')
    if rtype != 1:
        raise RefError('admin record type %d is not a status report' % rtype)
    rec = item.value[1]
    if rec.major != 4 or len(rec.value) not in (4, 6):
        raise RefError('status report has wrong item count')
    sts = rec.value[0]
    if sts.major != 4 or len(sts.value) != 4:
        raise RefError('status report needs 4 status assertions')
    status = []
    for one in sts.value:
        if one.major != 4 or len(one.value) not in (1, 2):
            raise RefError('status assertion is not an array of 1 or 2')
        flag = one.value[0]
        if flag.major != 7 or flag.value not in (True, False):
            raise RefError('status indicator is not a boolean')
        when = None
        if len(one.value) == 2:
            when = _uint(one.value[1], 'status time')
        status.append([flag.value, when])
    out = dict(status=status, reason=_uint(rec.value[1], 'reason code'),
               src=eid_from_item(rec.value[2]))
    tsi = rec.value[3]
    if tsi.major != 4 or len(tsi.value) != 2:
        raise RefError('subject timestamp is not a 2-array')
    out['ts'] = [_uint(tsi.value[0], 'time'), _uint(tsi.value[1], 'seq')]
    out['frag'] = None
    if len(rec.value) == 6:
        out['frag'] = [_uint(rec.value[4], 'frag offset'), _uint(rec.value[5], 'payload length')]
    return out
