''' Independent COSE (RFC 9052/9053) MAC0 / MAC / Sign1 / Encrypt0 / Encrypt
verification and creation for the BPSec COSE context, written with
hashlib/hmac/cryptography only (no pycose), on top of vlib.cborpull, plus the
external AAD construction of draft-ietf-dtn-bpsec-cose section 2.5.1 computed
from reference bundles (vlib.ref9171 dicts).

Abstract security block (RFC 9172 3.6) as a dict:
  {'targets': [n...], 'ctx': int, 'flags': int, 'src': EID,
   'params': [[id, value], ...] | None, 'results': [[[id, value], ...], ...]}
parameter 5 = AAD scope (dict block-number -> flags), 3 = additional protected
(bytes), 4 = additional unprotected (bytes); result value = encoded COSE message
(bytes) with detached payload.
'''
import hashlib
import hmac as _hmac

from . import cborpull as cb
from . import ref9171

AAD_METADATA = 0x01
AAD_BTSD = 0x02

TAG_ENC0, TAG_MAC0, TAG_SIGN1, TAG_ENC, TAG_MAC = 16, 17, 18, 96, 97
HDR_ALG, HDR_CRIT, HDR_KID, HDR_IV = 1, 2, 4, 5

HMAC_ALGS = {4: ('sha256', 8), 5: ('sha256', 32), 6: ('sha384', 48), 7: ('sha512', 64)}
GCM_ALGS = {1: 16, 2: 24, 3: 32}
KW_ALGS = {-3: 16, -4: 24, -5: 32}
ECDSA_ALGS = {-7: 'sha256', -35: 'sha384', -36: 'sha512'}   # ES256 / ES384 / ES512


class CoseError(ValueError):
    pass


# --- abstract security block -------------------------------------------------------------

def _py(item):
    ''' cborpull item -> python value with maps as dicts (keys must be hashable). '''
    if item.major == 4:
        return [_py(x) for x in item.value]
    if item.major == 5:
        return {_py(k): _py(v) for k, v in item.value}
    if item.major == 6:
        return ('tag', item.arg, _py(item.value))
    return item.value


def parse_asb(data_hex):
    data = bytes.fromhex(data_hex)
    try:
        items = cb.parse_all(data)
    except cb.CborError as err:
        raise CoseError('ASB is not a CBOR sequence: %s' % err)
    if len(items) not in (5, 6):
        raise CoseError('ASB has %d items' % len(items))
    asb = {'targets': _py(items[0]), 'ctx': _py(items[1]), 'flags': _py(items[2]),
           'src': ref9171.eid_from_item(items[3]), 'src_raw': data[items[3].start:items[3].end]}
    if asb['flags'] & 1:
        if len(items) != 6:
            raise CoseError('parameters flag set but no parameter list')
        asb['params'] = [list(p) for p in _py(items[4])]
        asb['results'] = _py(items[5])
    else:
        if len(items) != 5:
            raise CoseError('parameter list without the parameters flag')
        asb['params'] = None
        asb['results'] = _py(items[4])
    return asb


def _enc_value(val):
    if isinstance(val, dict):
        return cb.enc_canonical_map(val)
    return cb.enc(val)


def encode_asb(asb):
    out = cb.enc(list(asb['targets'])) + cb.enc(asb['ctx']) + cb.enc(asb['flags'])
    out += asb.get('src_raw_override') or cb.enc(ref9171.eid_item(asb['src']))
    if asb.get('params') is not None:
        out += cb.head(4, len(asb['params'])) + b''.join(cb.head(4, 2) + cb.enc(pid) + _enc_value(val) for pid, val in asb['params'])
    out += cb.head(4, len(asb['results']))
    for target in asb['results']:
        out += cb.head(4, len(target)) + b''.join(cb.head(4, 2) + cb.enc(rid) + _enc_value(val) for rid, val in target)
    return out.hex()


def params_of(asb):
    ''' :return: (aad_scope dict, additional protected bytes, additional unprotected bytes) '''
    scope = {0: 1, -1: 1, -2: 1}
    prot = b''
    unprot = b''
    for pid, val in asb.get('params') or []:
        if pid == 5:
            scope = dict(val)
        elif pid == 3:
            prot = bytes(val)
        elif pid == 4:
            unprot = bytes(val)
    return scope, prot, unprot


# --- external AAD ------------------------------------------------------------------------------

def external_aad(bundle, sec_blk, target_blk, asb):
    ''' draft-ietf-dtn-bpsec-cose 2.5.1, from a reference bundle (dict). '''
    scope, prot, _unprot = params_of(asb)
    out = cb.enc(ref9171.eid_item(asb['src']))
    out += cb.enc_canonical_map(scope)
    # processing order: the deterministic (bytewise) order of the encoded keys
    for _key_enc, num in sorted((cb.enc(k), k) for k in scope):
        flags = scope[num]
        if num == 0:
            if flags & AAD_METADATA:
                out += ref9171.encode_primary(bundle['primary'])
            continue
        if num == -1:
            blk = target_blk
        elif num == -2:
            blk = sec_blk
        else:
            blk = next((b for b in bundle['blocks'] if b['num'] == num), None)
            if blk is None:
                raise CoseError('AAD scope names missing block %d' % num)
        if flags & AAD_METADATA:
            out += cb.enc(blk['type']) + cb.enc(blk['num']) + cb.enc(blk['flags'])
        if flags & AAD_BTSD:
            out += cb.enc(bytes.fromhex(blk['data']))
    out += cb.enc(prot)
    return out


# --- COSE messages --------------------------------------------------------------------------------

def parse_msg(enc):
    item = cb.parse(bytes(enc))
    val = _py(item)
    if not isinstance(val, list) or len(val) < 3:
        raise CoseError('COSE message is not an array')
    prot_raw = val[0]
    if not isinstance(prot_raw, bytes):
        raise CoseError('protected header is not a bstr')
    prot = {}
    if prot_raw:
        prot = _py(cb.parse(prot_raw))
        if not isinstance(prot, dict):
            raise CoseError('protected header is not a map')
    unprot = val[1]
    if not isinstance(unprot, dict):
        raise CoseError('unprotected header is not a map')
    return dict(prot_raw=prot_raw, prot=prot, unprot=unprot, rest=val[2:])


def _headers(msg, extra_unprot=None):
    hdr = dict(extra_unprot or {})
    hdr.update(msg['unprot'])
    hdr.update(msg['prot'])
    return hdr


def _hmac_tag(alg, key, data):
    name, size = HMAC_ALGS[alg]
    return _hmac.new(key, data, getattr(hashlib, name)).digest()[:size]


def mac0_tag(alg, key, prot_raw, ext_aad, payload):
    structure = cb.enc(['MAC0', bytes(prot_raw), bytes(ext_aad), bytes(payload)])
    return _hmac_tag(alg, key, structure)


def mac0_create(alg, key, kid, ext_aad, payload):
    ''' Encoded COSE_Mac0 with detached (nil) payload. '''
    prot_raw = cb.enc_canonical_map({HDR_ALG: alg})
    tag = mac0_tag(alg, key, prot_raw, ext_aad, payload)
    return cb.enc([prot_raw, {HDR_KID: kid}, None, tag])


def verify_result(result_id, result_enc, keys, ext_aad, payload, extra_unprot=None):
    ''' :param keys: dict kid -> key bytes.  :return: True/False (verification), raises CoseError if malformed/unsupported. '''
    msg = parse_msg(result_enc)
    hdr = _headers(msg, extra_unprot)
    if HDR_CRIT in hdr:
        raise CoseError('critical headers present')
    alg = hdr.get(HDR_ALG)
    if result_id == TAG_MAC0:
        if alg not in HMAC_ALGS or len(msg['rest']) != 2:
            raise CoseError('unsupported MAC0')
        key = keys.get(hdr.get(HDR_KID))
        if key is None:
            return False
        return _hmac.compare_digest(mac0_tag(alg, key, msg['prot_raw'], ext_aad, payload), bytes(msg['rest'][1]))
    if result_id == TAG_MAC:
        if alg not in HMAC_ALGS or len(msg['rest']) != 3:
            raise CoseError('unsupported MAC')
        for recip in msg['rest'][2]:
            cek = _unwrap(recip, keys)
            if cek is None:
                continue
            structure = cb.enc(['MAC', bytes(msg['prot_raw']), bytes(ext_aad), bytes(payload)])
            if _hmac.compare_digest(_hmac_tag(alg, cek, structure), bytes(msg['rest'][1])):
                return True
        return False
    if result_id == TAG_SIGN1:
        if alg not in ECDSA_ALGS or len(msg['rest']) != 2:
            raise CoseError('unsupported Sign1')
        chain = hdr.get(33)
        if isinstance(chain, bytes):
            chain = [chain]
        if not chain:
            return False
        structure = cb.enc(['Signature1', bytes(msg['prot_raw']), bytes(ext_aad), bytes(payload)])
        return ecdsa_verify(alg, chain[0], structure, bytes(msg['rest'][1]))
    raise CoseError('unsupported result id %r' % result_id)


def ecdsa_verify(alg, cert_der, data, raw_sig):
    ''' COSE ECDSA: signature is r || s; the key is the subject key of the end-entity certificate. '''
    from cryptography import x509
    from cryptography.exceptions import InvalidSignature, UnsupportedAlgorithm
    from cryptography.hazmat.primitives import hashes
    from cryptography.hazmat.primitives.asymmetric import ec, utils
    try:
        cert = x509.load_der_x509_certificate(bytes(cert_der))
        pub = cert.public_key()
        half = len(raw_sig) // 2
        if half * 2 != len(raw_sig) or half == 0:
            return False
        der_sig = utils.encode_dss_signature(int.from_bytes(raw_sig[:half], 'big'), int.from_bytes(raw_sig[half:], 'big'))
        pub.verify(der_sig, data, ec.ECDSA(getattr(hashes, ECDSA_ALGS[alg].upper())()))
        return True
    except (InvalidSignature, ValueError, TypeError, UnsupportedAlgorithm, AttributeError):
        return False


def cert_bundle_eids(cert_der):
    ''' Texts of the id-on-bundleEID otherName SANs of a certificate (minimal DER reading of the IA5String). '''
    from cryptography import x509
    out = []
    try:
        cert = x509.load_der_x509_certificate(bytes(cert_der))
        ext = cert.extensions.get_extension_for_oid(x509.oid.ExtensionOID.SUBJECT_ALTERNATIVE_NAME)
    except x509.ExtensionNotFound:
        return out
    except Exception as err:
        # a certificate that does not parse (a flipped bit inside the x5chain: bad version, duplicate extension, ...)
        # names nobody
        raise CoseError('certificate does not parse: %s: %s' % (type(err).__name__, err))
    for name in ext.value.get_values_for_type(x509.OtherName):
        if name.type_id.dotted_string == '1.3.6.1.5.5.7.8.11' and len(name.value) >= 2 and name.value[0] == 0x16:
            length = name.value[1]
            out.append(name.value[2:2 + length].decode('ascii', 'replace'))
    return out


def _unprot_map(unprot):
    ''' The additional unprotected parameters (parameter 4) are an encoded header map. '''
    extra = _py(cb.parse(unprot)) if unprot else {}
    if not isinstance(extra, dict):
        raise CoseError('additional unprotected parameters are not a map')
    return extra


def sign1_identity_ok(asb):
    ''' The end-entity certificate of a Sign1 result must name the security source. '''
    _scope, _prot, unprot = params_of(asb)
    extra = _unprot_map(unprot)
    chain = extra.get(33)
    if isinstance(chain, bytes):
        chain = [chain]
    if not chain:
        return False
    return ref9171.eid_text(asb['src']) in cert_bundle_eids(chain[0])


def _unwrap(recip, keys):
    from cryptography.hazmat.primitives import keywrap
    rprot = _py(cb.parse(recip[0])) if recip[0] else {}
    rhdr = dict(recip[1])
    rhdr.update(rprot)
    if rhdr.get(HDR_ALG) not in KW_ALGS:
        return None
    kek = keys.get(rhdr.get(HDR_KID))
    if kek is None:
        return None
    try:
        return keywrap.aes_key_unwrap(kek, bytes(recip[2]))
    except Exception:
        return None


def decrypt_result(result_id, result_enc, keys, ext_aad, ciphertext, extra_unprot=None):
    ''' :return: plaintext bytes, or None if authentication fails / no key. '''
    from cryptography.hazmat.primitives.ciphers.aead import AESGCM
    msg = parse_msg(result_enc)
    hdr = _headers(msg, extra_unprot)
    alg = hdr.get(HDR_ALG)
    if alg not in GCM_ALGS:
        raise CoseError('unsupported content encryption algorithm %r' % alg)
    iv = hdr.get(HDR_IV)
    if not isinstance(iv, bytes) or len(iv) != 12:
        raise CoseError('bad IV')
    if result_id == TAG_ENC0:
        context = 'Encrypt0'
        key = keys.get(hdr.get(HDR_KID))
        cands = [key] if key is not None else []
    elif result_id == TAG_ENC:
        context = 'Encrypt'
        cands = [k for k in (_unwrap(rc, keys) for rc in msg['rest'][1]) if k is not None]
    else:
        raise CoseError('unsupported result id %r' % result_id)
    aad = cb.enc([context, bytes(msg['prot_raw']), bytes(ext_aad)])
    for key in cands:
        try:
            return AESGCM(key).decrypt(iv, bytes(ciphertext), aad)
        except Exception:
            continue
    return None


def enc0_create(alg, key, kid, iv, ext_aad, plaintext):
    ''' :return: (encoded COSE_Encrypt0 with nil ciphertext, ciphertext) '''
    from cryptography.hazmat.primitives.ciphers.aead import AESGCM
    prot_raw = cb.enc_canonical_map({HDR_ALG: alg})
    aad = cb.enc(['Encrypt0', prot_raw, bytes(ext_aad)])
    ctext = AESGCM(key).encrypt(iv, bytes(plaintext), aad)
    return cb.enc([prot_raw, {HDR_KID: kid, HDR_IV: iv}, None]), ctext


def cose_key_symmetric(data):
    ''' Decode a COSE_Key (symmetric): :return: (kid, k, alg) '''
    val = _py(cb.parse(bytes(data)))
    return val.get(2), val.get(-1), val.get(3)


# --- whole-bundle helpers ---------------------------------------------------------------------------

def security_blocks(bundle, type_code):
    return [b for b in bundle['blocks'] if b['type'] == type_code]


def verify_bib(bundle, bib_blk, keys):
    ''' Reference verdict for one BIB: True iff every target verifies. Raises CoseError when malformed. '''
    asb = parse_asb(bib_blk['data'])
    if asb['ctx'] != 3:
        raise CoseError('unknown security context %r' % asb['ctx'])
    _scope, _prot, unprot = params_of(asb)
    extra = _unprot_map(unprot)
    if len(asb['results']) != len(asb['targets']):
        raise CoseError('results do not match targets')
    for tnum, results in zip(asb['targets'], asb['results']):
        target = next((b for b in bundle['blocks'] if b['num'] == tnum), None)
        if target is None:
            raise CoseError('target block %r missing' % tnum)
        if len(results) != 1:
            raise CoseError('target has %d results' % len(results))
        rid, renc = results[0]
        aad = external_aad(bundle, bib_blk, target, asb)
        if rid == TAG_SIGN1 and not (keys.get('trust-anchor-ok') and sign1_identity_ok(asb)):
            return False
        if not verify_result(rid, renc, keys, aad, bytes.fromhex(target['data']), extra):
            return False
    return True


def decrypt_bcb(bundle, bcb_blk, keys):
    ''' :return: dict target-number -> plaintext (None where decryption fails). '''
    asb = parse_asb(bcb_blk['data'])
    if asb['ctx'] != 3:
        raise CoseError('unknown security context %r' % asb['ctx'])
    _scope, _prot, unprot = params_of(asb)
    extra = _unprot_map(unprot)
    out = {}
    for tnum, results in zip(asb['targets'], asb['results']):
        target = next((b for b in bundle['blocks'] if b['num'] == tnum), None)
        if target is None or len(results) != 1:
            raise CoseError('bad target/result')
        rid, renc = results[0]
        aad = external_aad(bundle, bcb_blk, target, asb)
        out[tnum] = decrypt_result(rid, renc, keys, aad, bytes.fromhex(target['data']), extra)
    return out


def selftest(data_dir):
    ''' Validate this module against the upstream interop vectors. '''
    import os

    def load(name):
        with open(os.path.join(data_dir, name), 'rb') as infile:
            return infile.read()
    keys = {}
    for name in ('key-ExampleA.1.cbor', 'key-ExampleA.4.cbor', 'key-ExampleA.5.cbor'):
        kid, k, _alg = cose_key_symmetric(load(name))
        keys[kid] = k
    bundle = ref9171.decode(load('exampleA.1.cbor'))
    bib = security_blocks(bundle, 11)[0]
    assert verify_bib(bundle, bib, keys) is True, 'exampleA.1 must verify'
    full = ref9171.decode(load('interop-integrity-full.cbor'))
    assert verify_bib(full, security_blocks(full, 11)[0], keys) is True, 'interop-integrity-full must verify'
    altered = ref9171.decode(load('interop-altered-aad.cbor'))
    assert verify_bib(altered, security_blocks(altered, 11)[0], keys) is False, 'interop-altered-aad must not verify'
    conf = ref9171.decode(load('interop-confidentiality-full.cbor'))
    base = ref9171.decode(load('interop-confidentiality-base.cbor'))
    plain = decrypt_bcb(conf, security_blocks(conf, 12)[0], keys)
    for num, text in plain.items():
        want = next(b for b in base['blocks'] if b['num'] == num)['data']
        assert text is not None and text.hex() == want, 'interop-confidentiality-full must decrypt to the base bundle'
    return True
