''' Conversions between "ref bundles" (vlib.ref9171 dicts) and the repository's
scapy objects, field by field (never through the encoded form). '''
from . import boot, ref9171

boot.bp()
from bp.encoding import (  # noqa: E402
    Bundle, PrimaryBlock, CanonicalBlock, Timestamp,
    PreviousNodeBlock, BundleAgeBlock, HopCountBlock,
    AdminRecord, StatusReport, StatusInfoArray, StatusInfo,
)


_EPOCH = None
MAX_DATETIME_MS = 253402300799999 - 946684800000      # 9999-12-31T23:59:59.999Z as DTN time


def time_value(ms, timeform):
    ''' The DTN time ``ms`` in the form a user of the encoding classes may give it: the integer, a datetime object
    or ISO 8601 text (DtnTimeField documents the conversion of both).  Exact: timedelta counts whole microseconds. '''
    global _EPOCH
    if timeform in (None, 'int', 'reassign') or not 0 < ms <= MAX_DATETIME_MS:
        return ms
    import datetime
    if _EPOCH is None:
        _EPOCH = datetime.datetime(2000, 1, 1, tzinfo=datetime.timezone.utc)
    val = _EPOCH + datetime.timedelta(milliseconds=ms)
    if timeform in ('datetime-zone', 'text-zone'):
        # the same instant as the clock of another time zone shows it
        minutes = (330, -300, 120, -720, 840)[ms % 5]
        try:
            val = val.astimezone(datetime.timezone(datetime.timedelta(minutes=minutes)))
        except OverflowError:
            pass
    return val if timeform.startswith('datetime') else val.isoformat()


def to_repo_primary(pri, timeform=None):
    kwargs = dict(
        bp_version=pri.get('version', 7),
        bundle_flags=pri['flags'],
        crc_type=pri['crc_type'],
        destination=ref9171.eid_text(pri['dest']),
        source=ref9171.eid_text(pri['src']),
        report_to=ref9171.eid_text(pri['rpt']),
        create_ts=Timestamp(dtntime=time_value(pri['ts'][0], timeform), seqno=pri['ts'][1]),
        lifetime=pri['lifetime'],
    )
    if pri.get('frag') is not None:
        kwargs['fragment_offset'] = pri['frag'][0]
        kwargs['total_app_data_len'] = pri['frag'][1]
    return PrimaryBlock(**kwargs)


def to_repo_block(blk, objform=False, admin=False, timeform=None):
    ''' objform: build known block types from a payload object (as the agent
    does when it originates them) instead of from BTSD octets.  objform='bound':
    additionally leave the type code of such blocks to scapy's layer binding
    (CanonicalBlock(block_num=..) / HopCountBlock(..)), as bp/agent.py and bp/app/sand.py do. '''
    base = dict(type_code=blk['type'], block_num=blk['num'], block_flags=blk['flags'], crc_type=blk['crc_type'])
    if objform == 'bound' and blk['type'] in (6, 7, 10):
        del base['type_code']
    if blk.get('unnumbered'):
        # left to Agent.send_bundle, which documents that it assigns block numbers
        del base['block_num']
    data = bytes.fromhex(blk['data'])
    if objform:
        try:
            if admin and blk['type'] == 1:
                rep = ref9171.parse_status_report(blk['data'])
                sia = StatusInfoArray()
                for name, (flag, when) in zip(('received', 'forwarded', 'delivered', 'deleted'), rep['status']):
                    sia.setfieldval(name, StatusInfo(status=flag, at=time_value(when, timeform) if when is not None else when))
                kwargs = dict(status=sia, reason_code=rep['reason'],
                              subj_source=ref9171.eid_text(rep['src']),
                              subj_ts=Timestamp(dtntime=time_value(rep['ts'][0], timeform), seqno=rep['ts'][1]))
                if rep['frag'] is not None:
                    kwargs['fragment_offset'] = rep['frag'][0]
                    kwargs['payload_len'] = rep['frag'][1]
                return CanonicalBlock(**base) / AdminRecord() / StatusReport(**kwargs)
            if blk['type'] == 6:
                return CanonicalBlock(**base) / PreviousNodeBlock(node=ref9171.eid_text(ref9171.parse_previous_node(blk['data'])))
            if blk['type'] == 7:
                return CanonicalBlock(**base) / BundleAgeBlock(age=ref9171.parse_age(blk['data']))
            if blk['type'] == 10:
                limit, count = ref9171.parse_hop_count(blk['data'])
                return CanonicalBlock(**base) / HopCountBlock(limit=limit, count=count)
        except ref9171.RefError:
            pass
    return CanonicalBlock(btsd=data, **base)


def to_repo(bundle, objform=False, timeform=None):
    admin = bool(bundle['primary']['flags'] & ref9171.FLAG_ADMIN)
    obj = Bundle()
    obj.primary = to_repo_primary(bundle['primary'], timeform)
    obj.blocks = [to_repo_block(blk, objform, admin, timeform) for blk in bundle['blocks']]
    return obj


def finalize(obj):
    ''' What bp.agent.Agent.send_bundle does to a bundle before encoding. '''
    obj.fill_fields()
    obj.update_all_crc()
    return bytes(obj)


def from_repo(obj):
    ''' Field values of a repo Bundle as a ref bundle (plus crc values). '''
    pri = obj.primary
    flags = int(pri.getfieldval('bundle_flags'))
    out_pri = dict(
        version=int(pri.getfieldval('bp_version')),
        flags=flags,
        crc_type=int(pri.getfieldval('crc_type')),
        dest=ref9171.eid_parse(pri.getfieldval('destination') or 'dtn:none'),
        src=ref9171.eid_parse(pri.getfieldval('source') or 'dtn:none'),
        rpt=ref9171.eid_parse(pri.getfieldval('report_to') or 'dtn:none'),
        ts=[int(pri.create_ts.getfieldval('dtntime')), int(pri.create_ts.getfieldval('seqno'))],
        lifetime=int(pri.getfieldval('lifetime')),
        frag=None,
    )
    if flags & ref9171.FLAG_FRAGMENT:
        out_pri['frag'] = [int(pri.getfieldval('fragment_offset')), int(pri.getfieldval('total_app_data_len'))]
    blocks = []
    for blk in obj.getfieldval('blocks'):
        data = blk.getfieldval('btsd')
        blocks.append(dict(type=int(blk.getfieldval('type_code')), num=int(blk.getfieldval('block_num')),
                           flags=int(blk.getfieldval('block_flags')), crc_type=int(blk.getfieldval('crc_type')),
                           data=(bytes(data).hex() if data is not None else None)))
    return {'primary': out_pri, 'blocks': blocks}
