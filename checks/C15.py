''' C15 - TCPCL enforces its TLS and peer-authentication policy. '''
import itertools

from hypothesis import strategies as st

from vlib import boot
from vlib.engine import Outcome

PROPERTY = 'C15'
RULE = ('(table) the full product local tls_enable x require_tls {None,True,False} x peer CAN_TLS x handshake outcome '
        '{ok, fails} x side {active, passive} x peer certificate {none, matching IP SAN} is enumerated against a scripted '
        'peer (96 cells).  (certificates) Hypothesis draws the SAN multiset of the peer certificate over {IP matching the '
        'peer address, other IP, DNS names, URI equal to the announced node ID, other URI, a URI differing from the announced node ID only in the letter case of its path, none, no certificate at all}, '
        'the announced node ID, require_host_authn x require_node_authn, side, connect by address or by host name; certificates are built with '
        'cryptography.x509 and handed over by a scripted TLS socket.  Oracle = independent policy function from the '
        'property text: TLS attempted <=> both offer; require_tls=True never proceeds in clear, False never secured; '
        'under TLS established <=> no presented identifier of a kind we hold a reference for contradicts it AND '
        '(host required => an IP or DNS identifier matches) AND (node required => a URI identifier matches); otherwise '
        'SESS_TERM contact-failure or close and never established; reserved contact header flag bits next to CAN_TLS change '
        'nothing; a SESS_INIT the peer wrote in clear behind its contact header does not count once TLS is used; and a transfer the refused peer offers afterwards is '
        'neither acknowledged nor handed to the application.  Observed: SESS_INIT on the wire, '
        'session_state_changed(established), is_secure(), authn_* of get_session_parameters().  Non-trivial = TLS '
        'attempted and the certificate carries >= 1 SAN; distinct by SHA-1 of the case.')
LEVEL = 'exploration'
ASSUMPTIONS = [
    'real TLS handshakes, cipher/version settings and chain validation by OpenSSL are replaced by a scripted socket '
    '(only Config.get_ssl_context() is overridden); the decision logic is what is tabulated',
    'by_name cases connect through the D-Bus method Agent.connect("node.example", port) with a stub resolver that maps the '
    'name to the peer address; otherwise the peer is reached by IP literal (no DNS-ID reference: DNS SANs can neither match '
    'nor contradict)',
]
EXHAUSTIVE_PART = 'TLS negotiation table: 96 cells against a scripted peer, the 12 x 12 = 144 pairs of cells with two real endpoints, and every certificate with <= 2 SAN entries (37 sets) x side x connect-by-name x require_host x require_node'

PEER_ADDR = '10.0.0.2'      # address of the scripted peer when the real endpoint is active
PEER_ADDR_PASSIVE = '10.0.0.1'
SAN_KINDS = ['ip-match', 'ip-other', 'dns-a', 'dns-b', 'uri-match', 'uri-other', 'uri-other2', 'uri-case']
_cert_cache = {}


def prepare():
    boot.tcpcl()


def budgets(tier):
    if tier == 'quick':
        return dict(shards=16, examples=40)
    return dict(shards=16, examples=10000, deadline_s=3000)


def strategy(tier):
    return st.fixed_dictionaries({
        'kind': st.just('cert'),
        'active': st.booleans(),
        'sans': st.one_of(st.just(None), st.lists(st.sampled_from(SAN_KINDS), max_size=4)),
        'nodeid': st.sampled_from(['dtn://peer/', 'dtn://peer/', 'ipn:7.0', '', 'dtn://peer/Svc']),
        'req_host': st.booleans(),
        'req_node': st.booleans(),
        'require_tls': st.sampled_from([None, True]),
        # the handler was given a host name (node.example) rather than the literal address: a DNS-ID reference exists
        'by_name': st.booleans(),
        # reserved contact header flag bits next to CAN_TLS (they are to be ignored)
        'peer_flag_extra': st.sampled_from([0, 0, 0x02, 0x80, 0x82]),
        # the peer writes its SESS_INIT in clear right behind its contact header, in one flight, and then says nothing
        # under TLS: when TLS is used that SESS_INIT must not count
        'inject': st.sampled_from([False, False, True]),
        # an idle time: a refused peer that then stays silent must not keep the connection for ever
        'idle': st.sampled_from([0, 0, 5]),
    })


def enumerate_cases(tier):
    for case in pair_cases():
        yield case
    # every certificate with at most two SAN entries x side x connect-by-name x what is required
    combos = [()] + [(k,) for k in SAN_KINDS] + list(itertools.combinations(SAN_KINDS, 2))
    for sans, active, by_name, req_host, req_node in itertools.product(combos, (False, True), (False, True), (False, True), (False, True)):
        yield {'kind': 'cert', 'active': active, 'sans': list(sans), 'nodeid': 'dtn://peer/', 'req_host': req_host,
               'req_node': req_node, 'require_tls': None, 'by_name': by_name}
        if req_node and not by_name:
            yield {'kind': 'cert', 'active': active, 'sans': list(sans), 'nodeid': 'dtn://peer/', 'req_host': req_host,
                   'req_node': req_node, 'require_tls': None, 'by_name': by_name, 'idle': 5}
        if 'uri-case' in sans:
            # the announced node ID has a path with letters: the certificate names it with the other letter case
            yield {'kind': 'cert', 'active': active, 'sans': list(sans), 'nodeid': 'dtn://peer/Svc', 'req_host': req_host,
                   'req_node': req_node, 'require_tls': None, 'by_name': by_name}
    for active, enable, require, peer_can, hs, cert in itertools.product(
            (False, True), (False, True), (None, True, False), (False, True), ('ok', 'fail'), (None, ['ip-match'])):
        yield {'kind': 'table', 'active': active, 'tls_enable': enable, 'require_tls': require, 'peer_can_tls': peer_can,
               'handshake': hs, 'sans': cert, 'nodeid': 'dtn://peer/', 'req_host': False, 'req_node': False}


def pair_cases():
    ''' Two real endpoints, each with its own cell of the negotiation table. '''
    cells = list(itertools.product((False, True), (None, True, False), ('ok', 'fail')))
    for (en_a, rq_a, hs_a), (en_b, rq_b, hs_b) in itertools.product(cells, cells):
        yield {'kind': 'pair', 'a': {'tls_enable': en_a, 'require_tls': rq_a, 'handshake': hs_a},
               'b': {'tls_enable': en_b, 'require_tls': rq_b, 'handshake': hs_b}}


def pinned_cases():
    yield 'tls-ok', {'kind': 'cert', 'active': True, 'sans': ['ip-match', 'uri-match'], 'nodeid': 'dtn://peer/',
                     'req_host': True, 'req_node': True, 'require_tls': True}
    yield 'dns-only-host-required', {'kind': 'cert', 'active': False, 'sans': ['dns-a'], 'nodeid': 'dtn://peer/',
                                     'req_host': True, 'req_node': False, 'require_tls': None}
    yield 'no-certificate', {'kind': 'cert', 'active': False, 'sans': None, 'nodeid': 'dtn://peer/',
                             'req_host': False, 'req_node': False, 'require_tls': None}


def make_cert(sans, peer_addr, nodeid):
    from vlib import tcpcl_world as tw
    return tw.make_cert(sans, peer_addr, nodeid)


def policy(case, peer_addr):
    ''' Independent statement of the policy.  :return: dict(attempt, secured, sess_init, established) '''
    enable = case.get('tls_enable', True)
    require = case.get('require_tls')
    peer_can = case.get('peer_can_tls', True)
    hs_ok = case.get('handshake', 'ok') == 'ok'
    attempt = bool(enable and peer_can)
    res = dict(attempt=attempt, secured=False, proceed=False, established=False)
    if require is not None and attempt != require:
        return res
    if attempt and not hs_ok:
        return res
    res['secured'] = attempt
    res['proceed'] = True
    if not attempt:
        res['established'] = True
        return res
    sans = case.get('sans')
    nodeid = case.get('nodeid', '')
    kinds = sans or []
    ip_present = any(k.startswith('ip-') for k in kinds)
    ip_match = 'ip-match' in kinds
    # a DNS name of the peer is known only to the active side, and only when it was told to connect to a name
    dns_ref = bool(case.get('by_name')) and bool(case.get('active'))
    dns_present = dns_ref and any(k.startswith('dns-') for k in kinds)
    dns_match = dns_ref and 'dns-a' in kinds
    uri_present = any(k.startswith('uri-') for k in kinds)
    # 'uri-match' carries the announced node id (or a placeholder when the peer announces an empty id)
    uri_match = 'uri-match' in kinds and bool(nodeid)
    if not nodeid and 'uri-match' in kinds:
        uri_match = False
    contradiction = (ip_present and not ip_match) or (dns_present and not dns_match) or (uri_present and not uri_match)
    ok = not contradiction
    if case.get('req_host') and not (ip_match or dns_match):
        ok = False
    if case.get('req_node') and not uri_match:
        ok = False
    res['established'] = ok
    return res


def execute_pair(case, out):
    ''' Both sides are real; each must obey its own policy given what the other offers. '''
    from vlib import tcpcl_world as tw, ref9174 as r
    cfgs = {}
    for side, addr in (('a', PEER_ADDR_PASSIVE), ('b', PEER_ADDR)):
        cell = case[side]
        # each side presents a certificate naming its own address and node id
        own_node = 'dtn://node-%s/' % side
        der = make_cert(['ip-match', 'uri-match'], addr, own_node)
        cfgs[side] = (cell, der, own_node)
    script_a = {'handshake': case['a']['handshake'], 'peer_cert_der': cfgs['b'][1]}
    script_b = {'handshake': case['b']['handshake'], 'peer_cert_der': cfgs['a'][1]}
    cfg_a = tw.make_config(cfgs['a'][2], tls_script=script_a, tls_enable=case['a']['tls_enable'], require_tls=case['a']['require_tls'])
    cfg_b = tw.make_config(cfgs['b'][2], tls_script=script_b, tls_enable=case['b']['tls_enable'], require_tls=case['b']['require_tls'])
    world = tw.World(cfg_a, cfg_b)
    world.drain(max_rounds=400)
    wants = {}
    for side, other in (('a', 'b'), ('b', 'a')):
        cell = dict(case[side], peer_can_tls=case[other]['tls_enable'], sans=['ip-match', 'uri-match'], nodeid='dtn://node-%s/' % other)
        wants[side] = policy(cell, None)
    both = wants['a']['proceed'] and wants['b']['proceed']
    for side, end_name, pipe in (('a', 'A', world.link.ab), ('b', 'B', world.link.ba)):
        end = world.ends[end_name]
        msgs, _used, _status = r.parse_stream(bytes(pipe.log))
        sent_init = any(m['t'] == 'SESS_INIT' for m in msgs)
        was_established = any(e['args'][0] == 'established' for e in end.signals('session_state_changed'))
        desc = 'side %s %s vs peer %s' % (side, case[side], case['b' if side == 'a' else 'a'])
        if not wants[side]['proceed']:
            if sent_init:
                out.fail('pair:sess-init-against-tls-policy', 'SESS_INIT sent although the own policy forbids proceeding (%s)' % desc)
            if was_established:
                out.fail('pair:established-against-tls-policy', 'established although the own policy forbids it (%s)' % desc)
        if both and not was_established:
            out.fail('pair:not-established', 'both policies allow the session but side %s was not established (%s)' % (side, desc))
        if was_established:
            secure = tw.dbuscall(end.ctx, end.hdl, 'is_secure') if not end.sock.closed else wants[side]['secured']
            if not hasattr(secure, 'exc') and bool(secure) != wants[side]['secured']:
                out.fail('pair:secured-state-wrong', 'is_secure() is %s, policy says %s (%s)' % (secure, wants[side]['secured'], desc))
    for esc in world.escapes():
        out.fail('escape:%s@%s' % (esc.exc_type, esc.frame), 'exception escaped an event-loop callback (%s): %s: %s'
                 % (esc.source, esc.exc_type, esc.exc_msg[:140]))
    out.nontrivial = wants['a']['attempt']
    out.label('pair', 'both-proceed' if both else 'refused')


def execute(case):
    from vlib import tcpcl_world as tw, ref9174 as r
    out = Outcome()
    if case.get('kind') == 'pair':
        execute_pair(case, out)
        return out
    active = bool(case['active'])
    peer_addr = PEER_ADDR if active else PEER_ADDR_PASSIVE
    enable = case.get('tls_enable', True)
    sans = case.get('sans')
    nodeid = case.get('nodeid', '')
    der = make_cert(sans, peer_addr, nodeid)
    script = {'handshake': case.get('handshake', 'ok'), 'peer_cert_der': der}
    idle_s = int(case.get('idle') or 0)
    cfg = tw.make_config('dtn://real/', tls_script=script, tls_enable=enable, require_tls=case.get('require_tls'),
                         require_host_authn=bool(case.get('req_host')), require_node_authn=bool(case.get('req_node')),
                         idle_time=idle_s)
    world = tw.World(cfg, scripted=True, real_is_passive=not active, peer_name='node.example' if case.get('by_name') else None)
    end = world.real
    hdl = end.hdl
    world.settle()
    peer_flags = (r.CH_CAN_TLS if case.get('peer_can_tls', True) else 0) | int(case.get('peer_flag_extra') or 0)
    init_octets = r.encode({'t': 'SESS_INIT', 'keepalive': 0, 'segment_mru': 1000, 'transfer_mru': 10 ** 6,
                            'nodeid': nodeid, 'ext': []})
    inject = bool(case.get('inject'))
    world.peer_send(r.encode({'t': 'CH', 'magic': r.MAGIC.hex(), 'version': 4, 'flags': peer_flags}) + (init_octets if inject else b''))
    world.settle()
    secure_after_contact = None
    if not end.sock.closed:
        secure_after_contact = tw.dbuscall(end.ctx, hdl, 'is_secure')
        if not inject:
            try:
                world.peer_send(init_octets)
            except OSError:
                pass
        world.settle()
    want = policy(case, peer_addr)
    if idle_s and not end.sock.closed and want['proceed'] and not want['established'] and not inject:
        # the refused peer now simply stays silent: with an idle time configured the endpoint, which is terminating,
        # must end by closing (nothing else will ever happen on this connection)
        from vlib import simloop
        for _ in range(3):
            world.advance_to_next_timer(limit_ms=simloop.CLOCK.now_ms + idle_s * 1000 + 1)
            world.settle()
        simloop.advance_to(simloop.CLOCK.now_ms + idle_s * 1000 + 1)
        world.settle()
        out.label('refused-then-silent')
        if not end.sock.closed:
            out.fail('refused-contact-never-closes', 'the session was refused (SESS_TERM sent), idle_time is %d s, the peer stayed silent for '
                     'more than that and the endpoint still has not closed (state %s)' % (idle_s, hdl._state))
    if inject and want['attempt'] and want['proceed']:
        # TLS is used and the only SESS_INIT the peer ever wrote travelled in clear before the handshake
        want = dict(want, established=False)
        out.label('cleartext-sess-init-before-tls')
    # a peer that was refused must not be able to use the connection as a session: it offers a complete transfer
    refused_peer_transfer = False
    if (not want['proceed'] or not want['established']) and not end.sock.closed:
        # it also tries again with another SESS_INIT, this time announcing a node id its certificate does name
        for retry_id in ('dtn://somebody-else/', nodeid or 'dtn://peer/'):
            try:
                world.peer_send(r.encode({'t': 'SESS_INIT', 'keepalive': 0, 'segment_mru': 1000, 'transfer_mru': 10 ** 6,
                                          'nodeid': retry_id, 'ext': []}))
            except OSError:
                break
            world.settle()
            if end.sock.closed:
                break
    if (not want['proceed'] or not want['established']) and not end.sock.closed:
        try:
            world.peer_send(r.encode({'t': 'XFER_SEGMENT', 'flags': 3, 'id': 7, 'ext': [r.transfer_length_ext(12)],
                                      'data': b'from-refused'.hex()}))
            refused_peer_transfer = True
        except OSError:
            pass
        world.settle()
    msgs, _used, status = r.parse_stream(world.real_wire())
    sent_init = any(m['t'] == 'SESS_INIT' for m in msgs)
    terms = [m for m in msgs if m['t'] == 'SESS_TERM']
    was_established = any(e['args'][0] == 'established' for e in end.signals('session_state_changed'))
    for esc in world.escapes():
        out.fail('escape:%s@%s' % (esc.exc_type, esc.frame), 'exception escaped an event-loop callback (%s): %s: %s'
                 % (esc.source, esc.exc_type, esc.exc_msg[:140]))
    own_ch = next((m for m in msgs if m['t'] == 'CH'), None)
    if own_ch is not None and bool(own_ch['flags'] & r.CH_CAN_TLS) != bool(enable):
        out.fail('contact-header-can-tls', 'contact header CAN_TLS=%s with tls_enable=%s' % (own_ch['flags'] & 1, enable))
    tag = 'cert' if want['attempt'] and want['secured'] else 'tls'
    if not want['proceed']:
        if sent_init:
            out.fail('sess-init-against-tls-policy', 'SESS_INIT sent although policy forbids proceeding (enable=%s require=%s '
                     'peer_can=%s handshake=%s)' % (enable, case.get('require_tls'), case.get('peer_can_tls', True), case.get('handshake', 'ok')))
        if was_established:
            out.fail('established-against-tls-policy', 'session established although the TLS policy forbids it')
        if not end.sock.closed and not terms:
            out.fail('policy-failure-left-open', 'TLS policy failure but the connection is neither closed nor terminated')
    else:
        if secure_after_contact is not None and bool(secure_after_contact) != want['secured']:
            out.fail('secured-state-wrong', 'is_secure() is %s, policy says TLS %s' % (secure_after_contact, want['secured']))
        if not sent_init and not world.escapes() and not (inject and want['attempt']):
            # (after cleartext octets ahead of the TLS handshake the endpoint may as well refuse the contact)
            out.fail('sess-init-missing', 'policy allows the session but no SESS_INIT was sent (closed=%s)' % end.sock.closed)
        if want['established'] and not was_established and not world.escapes():
            out.fail('not-established', 'policy allows the session (sans=%s req_host=%s req_node=%s nodeid=%r) but it was not '
                     'established; SESS_TERM reasons %s' % (sans, case.get('req_host'), case.get('req_node'), nodeid,
                                                            [t['reason'] for t in terms]))
        if not want['established']:
            if was_established:
                out.fail('established-against-authn-policy', 'session established although authentication must fail '
                         '(sans=%s req_host=%s req_node=%s nodeid=%r active=%s)'
                         % (sans, case.get('req_host'), case.get('req_node'), nodeid, active))
            elif not world.escapes() and not (inject and want['attempt']):
                if not end.sock.closed and not any(t['reason'] == 4 for t in terms):
                    out.fail('authn-failure-not-terminated', 'authentication failed but neither SESS_TERM(contact failure) nor '
                             'close followed (SESS_TERM reasons %s)' % [t['reason'] for t in terms])
        if want['established'] and was_established and want['secured']:
            params = end.call('get_session_parameters')
            if not hasattr(params, 'exc'):
                kinds = sans or []
                if ('ip-match' in kinds) != bool(params.get('authn_ipaddrid')):
                    out.fail('authn-ipaddrid-param', 'authn_ipaddrid=%r with SANs %s' % (params.get('authn_ipaddrid'), kinds))
                if (bool(case.get('by_name')) and active and 'dns-a' in kinds) != bool(params.get('authn_dnsid')):
                    out.fail('authn-dnsid-param', 'authn_dnsid=%r with SANs %s (by name: %s)' % (params.get('authn_dnsid'), kinds, case.get('by_name')))
                if ('uri-match' in kinds and bool(nodeid)) != bool(params.get('authn_nodeid')):
                    out.fail('authn-nodeid-param', 'authn_nodeid=%r with SANs %s' % (params.get('authn_nodeid'), kinds))
    if refused_peer_transfer:
        out.label('refused-peer-offers-transfer')
        got = end.signals('recv_bundle_finished')
        acks = [m for m in msgs if m['t'] == 'XFER_ACK']
        if got or acks:
            out.fail('refused-peer-transfer-accepted', 'the session was refused (policy: proceed=%s established=%s) but a transfer '
                     'offered afterwards by that peer was %s (sans=%s req_host=%s req_node=%s nodeid=%r)'
                     % (want['proceed'], want['established'], 'received and announced to the application' if got else 'acknowledged',
                        sans, case.get('req_host'), case.get('req_node'), nodeid))
    out.nontrivial = want['attempt'] and want['secured'] and bool(sans)
    out.label(case['kind'], 'active' if active else 'passive', 'attempt' if want['attempt'] else 'no-attempt',
              'proceed' if want['proceed'] else 'refused', 'estab' if want['established'] else 'not-estab')
    if sans is None and want['secured']:
        out.label('no-peer-certificate')
    if case.get('by_name') and active:
        out.label('dns-reference')
        if want['secured'] and {'dns-a', 'dns-b'} & set(sans or []) and {'ip-match', 'ip-other'} & set(sans or []):
            out.label('dns-and-ip-san')
    for kind in sans or []:
        out.label('san:' + kind)
    return out
