''' C11 - Forwarding preserves the bundle and updates only the hop-by-hop blocks. '''
from hypothesis import strategies as st

from vlib import boot
from vlib.engine import Outcome

PROPERTY = 'C11'
RULE = ('A real BP agent with a "forward" receive route and a transmit route receives a generated bundle from the '
        'independent RFC 9171 encoder: any multiset of previous-node (also with an unknown EID scheme, or opaque as under a BCB), hop-count (limit/count on CBOR head boundaries), '
        'bundle-age and unknown extension blocks, CRC type per block, arbitrary unique block numbers with gaps (or, labelled, one number used twice: refused or put right, never forwarded as it is), report '
        'flags, creation time zero, in the past or slightly in the future; the virtual clock is advanced by a drawn amount before the '
        'forwarding idle callback runs.  Oracle on the octets handed to the convergence layer, parsed by the '
        'independent decoder: primary block octet-identical to the received one, payload identical, exactly one '
        'Previous Node block naming this node, every Hop Count block limit unchanged and count+1, at most one Bundle Age '
        'block equal to virtual-now minus creation time, every other extension block unchanged, block numbers unique '
        'with the payload numbered 1 and last, all CRCs valid.  Non-trivial = the received bundle already carried a '
        'hop-count or previous-node block; distinct by SHA-1 of the case.')
SHRINK_KEYS = ('bundles',)
SHRINK_KINDS = ('list',)
ASSUMPTIONS = [
    'for a creation time later than the virtual clock (sender clock ahead) only the well-formedness of the age block is judged',
    'with a route MTU below the bundle size (mtu "frag") every fragment must show the received primary block fields and the first fragment the forwarded block set; how the ranges are cut and what later fragments carry is C05',
]

NODE = 'dtn://fwd/'
NOW_DTN = 789004800000   # DTN time of the virtual epoch 2025-01-01


def prepare():
    boot.bp()


def budgets(tier):
    if tier == 'quick':
        return dict(shards=16, examples=60)
    return dict(shards=16, examples=6000, deadline_s=3000)


@st.composite
def ext_blocks(draw):
    from vlib import strat, ref9171 as r
    kind = draw(st.sampled_from(['prev', 'hop', 'hop', 'age', 'unknown', 'unknown', 'prev-foreign', 'prev-opaque', 'age-opaque']))
    crc = draw(st.sampled_from([0, 1, 2]))
    flags = draw(strat.flag_sets(strat.BLOCK_FLAGS + strat.UNASSIGNED_BLOCK_FLAGS[:2]))
    if kind == 'prev':
        return dict(type=6, flags=flags, crc_type=crc, data=r.btsd_previous_node(draw(strat.eids(allow_none=False))))
    if kind == 'prev-foreign':
        # the previous hop named itself with an EID scheme this implementation does not know: [scheme code, any item]
        from vlib import cborpull as cb
        return dict(type=6, flags=flags, crc_type=crc, data=cb.enc([draw(st.sampled_from([3, 4, 65535])), 'example-ssp']).hex())
    if kind in ('prev-opaque', 'age-opaque'):
        # a Previous Node / Bundle Age block that is the target of a confidentiality block: its data is ciphertext
        # (the BCB itself is not needed for what forwarding does to these blocks)
        return dict(type=6 if kind == 'prev-opaque' else 7, flags=flags, crc_type=crc,
                    data=draw(st.binary(min_size=17, max_size=30)).hex())
    if kind == 'hop':
        limit = draw(st.sampled_from([1, 23, 24, 30, 255, 256, 65535]))
        count = draw(st.sampled_from([0, 1, 22, 23, 24, 254, 255, 256, 65534]))
        return dict(type=10, flags=flags, crc_type=crc, data=r.btsd_hop_count(limit, count))
    if kind == 'age':
        return dict(type=7, flags=flags, crc_type=crc, data=r.btsd_age(draw(strat.uints(2 ** 40))))
    tcode = draw(st.sampled_from([2, 8, 9, 13, 192, 255, 256, 65536]))
    return dict(type=tcode, flags=flags, crc_type=crc, data=draw(st.binary(max_size=40)).hex())


def strategy(tier):
    return st.fixed_dictionaries({'bundles': st.lists(bundle_specs(), min_size=1, max_size=3)})


def bundle_specs():
    from vlib import strat
    return st.fixed_dictionaries({
        'ext': st.lists(ext_blocks(), max_size=5),
        'nums': st.lists(st.one_of(st.integers(2, 12), st.sampled_from([23, 24, 255, 256, 70000])), min_size=5, max_size=5, unique=True),
        'flags': strat.flag_sets(strat.REPORT_FLAGS + strat.OTHER_FLAGS + strat.UNASSIGNED_BUNDLE_FLAGS[:4]),
        'pcrc': st.sampled_from([0, 1, 2]), 'ycrc': st.sampled_from([0, 1, 2]),
        # negative: the creating node's clock is ahead of this node's (only well-formedness of the age is judged then)
        'created_ago': st.one_of(st.none(), st.integers(0, 10 ** 7), st.sampled_from([0, 1, 23, 24, 255, 256, 65535, 65536]),
                                 st.sampled_from([-1, -24, -500, -100000])),
        'seq': strat.uints(2 ** 32), 'lifetime': st.one_of(st.sampled_from([1, 1000, 3600000]), strat.uints()),
        'wait_ms': st.sampled_from([0, 0, 1, 999, 1000, 60000]),
        'payload': strat.payload_bytes(300).map(bytes.hex),
        # 'frag': a route MTU below the bundle size (C11 is quantified over all transmit routes): the bundle leaves as
        # fragments, each of which still shows the received primary block fields
        'mtu': st.sampled_from([None, None, 100000, 'frag', 'frag']),
        # the convergence layer raises at hand-over for this bundle (its service went away): nothing of it leaves the
        # node, and the bundles after it are forwarded as if it had never been there
        'cl_fails': st.sampled_from([False, False, False, False, True]),
        'src': strat.eids(allow_none=False), 'dest': st.sampled_from([['dtn', '//far/away'], ['ipn', 5, 6]]),
        'rpt': strat.eids(),
        'dup_num': st.sampled_from([None, None, None, None, None, 'ext', 'payload']),
    })


def pinned_cases():
    from vlib import ref9171 as r
    yield 'hop-and-prev', {'bundles': [{'ext': [dict(type=10, flags=0, crc_type=1, data=r.btsd_hop_count(30, 23)),
                                   dict(type=6, flags=0, crc_type=0, data=r.btsd_previous_node(['dtn', '//before/'])),
                                   dict(type=7, flags=0, crc_type=2, data=r.btsd_age(5)),
                                   dict(type=192, flags=1, crc_type=0, data='0102')],
                           'nums': [3, 7, 2, 24, 9], 'flags': 0, 'pcrc': 2, 'ycrc': 2, 'created_ago': 5000, 'seq': 1,
                           'lifetime': 3600000, 'wait_ms': 1000, 'payload': '68656c6c6f', 'mtu': None,
                           'src': ['dtn', '//src/'], 'dest': ['dtn', '//far/away'], 'rpt': ['dtn', 'none']}]}


def execute(case):
    from vlib import bp_world as bw
    out = Outcome()
    bw.reset()
    node = bw.Node(NODE, rx_routes=[('.*', 'forward')], tx_routes=[('.*', 'dtn://next/', None)])
    for idx, spec in enumerate(case['bundles']):
        spec = dict(spec, seq=int(spec['seq']) + idx * 7919)    # distinct identities within one history
        forward_one(node, spec, out)
    out.label('history:%d' % len(case['bundles']))
    return out


def forward_one(node, case, out):
    from vlib import ref9171 as r, simloop
    n_before = len(node.sent())
    ago = case.get('created_ago')
    ctime = 0 if ago is None else max(1, NOW_DTN - int(ago))
    blocks = []
    for blk, num in zip(case['ext'], case['nums']):
        blocks.append(dict(blk, num=int(num)))
    blocks.append(dict(type=1, num=1, flags=0, crc_type=case['ycrc'], data=case['payload']))
    bundle = {'primary': dict(version=7, flags=int(case['flags']), crc_type=case['pcrc'], dest=case['dest'], src=case['src'],
                              rpt=case['rpt'], ts=[ctime, int(case['seq'])], lifetime=int(case['lifetime']), frag=None),
              'blocks': blocks}
    if case.get('dup_num') and len(blocks) >= 2:
        # a received bundle in which one block number occurs twice (an extension block numbered like another one, or like
        # the payload block): it may be refused, or forwarded with the numbering put right - never forwarded as it is
        blocks[0]['num'] = blocks[1]['num'] if case['dup_num'] == 'ext' and len(blocks) >= 3 else 1
        node.set_mtu(0, None)
        node.receive(r.encode(bundle), run=False)
        node.run()
        node._seen_esc = list(node.escapes())
        out.label('duplicate-block-number')
        for data in node.sent()[n_before:]:
            from vlib import cborpull as cb
            try:
                items = cb.parse(bytes(data)).value
                nums_out = [blk.value[1].value for blk in items[1:]]
            except Exception as exc:
                out.fail('forwarded-not-wellformed', 'octets handed to the CL do not parse: %s' % exc)
                continue
            if len(set(nums_out)) != len(nums_out):
                out.fail('forwarded-duplicate-block-numbers', 'a bundle received with one block number used twice left the node with block '
                         'numbers %s' % nums_out)
        return out
    wire_in = r.encode(bundle)
    din = r.decode(wire_in)
    mtu = case.get('mtu')
    if mtu == 'frag':
        plen = len(case['payload']) // 2
        # room for the blocks that forwarding adds and for about half of the payload
        mtu = len(wire_in) + 40 - plen // 2 if plen >= 64 and not int(case['flags']) & r.FLAG_NO_FRAGMENT else None
    node.set_mtu(0, mtu)
    node.cl.fail = bool(case.get('cl_fails'))
    err = node.receive(wire_in, run=False)
    if err is not None:
        node.cl.fail = False
        out.fail('receive-raises:%s' % type(err).__name__, 'receiving a well-formed bundle raised: %s' % err)
        return out
    if case.get('cl_fails'):
        simloop.advance_to(simloop.CLOCK.now_ms + int(case.get('wait_ms', 0)))
        node.run()
        node.cl.fail = False
        node.run()
        node._seen_esc = list(node.escapes())
        out.label('cl-fails')
        if len(node.sent()) != n_before:
            out.fail('sent-although-cl-failed', 'the CL refused the bundle, %d bundle(s) were handed over all the same' % (len(node.sent()) - n_before))
        return out
    simloop.advance_to(simloop.CLOCK.now_ms + int(case.get('wait_ms', 0)))
    now_at_forward = NOW_DTN + simloop.CLOCK.now_ms
    node.run()
    for esc in node.escapes()[len(getattr(node, '_seen_esc', [])):]:
        out.fail('escape:%s@%s' % (esc.exc_type, esc.frame), 'exception escaped a main-loop callback: %s: %s' % (esc.exc_type, esc.exc_msg[:120]))
    sent = node.sent()[n_before:]
    fwd = []
    for data in sent:
        try:
            dec = r.decode(data)
        except r.RefError as exc:
            out.fail('forwarded-not-wellformed', 'octets handed to the CL are not an RFC 9171 bundle: %s' % exc)
            continue
        if not dec['primary']['flags'] & r.FLAG_ADMIN or bundle['primary']['flags'] & r.FLAG_ADMIN:
            if dec['primary']['dest'] == bundle['primary']['dest']:
                fwd.append((data, dec))
    had_hop = any(b['type'] == 10 for b in blocks)
    had_prev = any(b['type'] == 6 for b in blocks)
    out.nontrivial = out.nontrivial or had_hop or had_prev
    out.label('hop' if had_hop else 'no-hop', 'prev' if had_prev else 'no-prev',
              'time-zero' if ctime == 0 else 'time-set', 'ext:%d' % len(case['ext']))
    if len(fwd) > 1 and all(d['primary']['frag'] is not None for _w, d in fwd):
        # forwarded as fragments: every one shows the received primary block fields, the payload ranges tile the payload
        out.label('forwarded-as-fragments')
        pos = 0
        joined = b''
        for data, dec in sorted(fwd, key=lambda x: x[1]['primary']['frag'][0]):
            diffs = [k for k in ('version', 'crc_type', 'dest', 'src', 'rpt', 'ts', 'lifetime')
                     if dec['primary'].get(k) != din['primary'].get(k)]
            if dec['primary']['flags'] != din['primary']['flags'] | r.FLAG_FRAGMENT:
                diffs.append('flags')
            if diffs:
                out.fail('primary-changed:%s' % ','.join(diffs), 'primary block of a fragment differs from the received bundle: %s'
                         % '; '.join('%s %r -> %r' % (k, din['primary'].get(k), dec['primary'].get(k)) for k in diffs))
            if not r.all_crc_ok(dec):
                out.fail('crc-invalid', 'a forwarded fragment has an invalid CRC')
            chunk = bytes.fromhex(r.payload_block(dec)['data'])
            if dec['primary']['frag'][0] != pos or dec['primary']['frag'][1] != len(case['payload']) // 2:
                out.fail('payload-changed', 'fragment ranges do not tile the payload (offset %d after %d octets, total %d of %d)'
                         % (dec['primary']['frag'][0], pos, dec['primary']['frag'][1], len(case['payload']) // 2))
            pos += len(chunk)
            joined += chunk
        if joined.hex() != case['payload']:
            out.fail('payload-changed', 'payload differs after forwarding in fragments')
        # the blocks of the first fragment are judged like those of a whole forwarded bundle; later fragments carry what
        # C05 says they carry
        first = min(fwd, key=lambda x: x[1]['primary']['frag'][0])
        fwd = [first]
        case = dict(case, payload=r.payload_block(first[1])['data'])
        fragmented = True
    else:
        fragmented = False
    if len(fwd) != 1:
        out.fail('forward-count', 'expected exactly one forwarded bundle, the CL got %d (of %d bundles)' % (len(fwd), len(sent)))
        return out
    data, dec = fwd[0]
    # primary block octet-identical
    pin = wire_in[din['primary']['span'][0]:din['primary']['span'][1]]
    pout = data[dec['primary']['span'][0]:dec['primary']['span'][1]]
    if pin != pout and not fragmented:
        diffs = [k for k in ('version', 'flags', 'crc_type', 'dest', 'src', 'rpt', 'ts', 'lifetime', 'frag')
                 if dec['primary'].get(k) != din['primary'].get(k)]
        out.fail('primary-changed:%s' % ','.join(diffs or ['encoding']),
                 'primary block changed in forwarding: %s' % '; '.join('%s %r -> %r' % (k, din['primary'].get(k), dec['primary'].get(k)) for k in diffs))
    if not r.all_crc_ok(dec):
        bad = [b['num'] for b in dec['blocks'] if not b['crc_ok']]
        out.fail('crc-invalid', 'forwarded bundle has an invalid CRC (primary ok=%s, bad block numbers %s)' % (dec['primary']['crc_ok'], bad))
    if r.payload_block(dec)['data'] != case['payload']:
        out.fail('payload-changed', 'payload differs after forwarding')
    oblocks = dec['blocks']
    prevs = [b for b in oblocks if b['type'] == 6]
    if len(prevs) != 1:
        out.fail('previous-node-count', 'forwarded bundle has %d Previous Node blocks' % len(prevs))
    else:
        try:
            if r.eid_text(r.parse_previous_node(prevs[0]['data'])) != NODE:
                out.fail('previous-node-value', 'Previous Node block names %r' % r.parse_previous_node(prevs[0]['data']))
        except Exception as exc:
            out.fail('previous-node-undecodable', 'Previous Node block data undecodable: %s' % exc)
    # hop counts
    hops_in = [(b['num'], r.parse_hop_count(b['data'])) for b in blocks if b['type'] == 10]
    hops_out = {b['num']: b for b in oblocks if b['type'] == 10}
    for num, (limit, count) in hops_in:
        if num not in hops_out:
            out.fail('hop-count-block-lost', 'Hop Count block number %d disappeared' % num)
            continue
        try:
            olimit, ocount = r.parse_hop_count(hops_out[num]['data'])
        except Exception as exc:
            out.fail('hop-count-undecodable', 'Hop Count block undecodable after forwarding: %s' % exc)
            continue
        if olimit != limit or ocount != count + 1:
            out.fail('hop-count-not-incremented', 'Hop Count block %d was [%d,%d], forwarded as [%d,%d] on the wire'
                     % (num, limit, count, olimit, ocount))
    if len(hops_out) != len(hops_in):
        out.fail('hop-count-blocks', 'received %d Hop Count blocks, forwarded %d' % (len(hops_in), len(hops_out)))
    ages = [b for b in oblocks if b['type'] == 7]
    if len(ages) > 1:
        out.fail('bundle-age-count', 'forwarded bundle has %d Bundle Age blocks' % len(ages))
    elif len(ages) == 1 and ctime != 0:
        try:
            age = r.parse_age(ages[0]['data'])
            if ctime > now_at_forward:
                out.label('created-in-the-future')     # no defined age: it only has to be an unsigned integer
            elif age != now_at_forward - ctime:
                out.fail('bundle-age-value', 'Bundle Age is %d, time since creation is %d' % (age, now_at_forward - ctime))
        except Exception as exc:
            out.fail('bundle-age-undecodable', 'Bundle Age block undecodable: %s' % exc)
    # all other extension blocks unchanged
    others_in = [(b['type'], b['num'], b['flags'], b['crc_type'], b['data']) for b in blocks if b['type'] not in (1, 6, 7, 10)]
    others_out = [(b['type'], b['num'], b['flags'], b['crc_type'], b['data']) for b in oblocks if b['type'] not in (1, 6, 7, 10)]
    if sorted(others_in) != sorted(others_out):
        out.fail('other-block-changed', 'extension blocks changed: %s -> %s' % (others_in, others_out))
    for b_in in blocks:
        if b_in['type'] == 10:
            b_out = hops_out.get(b_in['num'])
            if b_out and (b_out['flags'], b_out['crc_type']) != (b_in['flags'], b_in['crc_type']):
                out.fail('hop-count-meta-changed', 'Hop Count block flags/CRC type changed')
    return out
