''' C08 - Block CRCs are always valid on output and always checked on input. '''
import random

from hypothesis import strategies as st

from vlib import boot
from vlib.engine import Outcome

PROPERTY = 'C08'
LEVEL = 'fault_enumeration'
RULE = ('(input) a valid bundle from the independent RFC 9171 encoder (1-4 blocks, CRC type per block with at least one '
        'protected block, report flags and a report-to so that any processing is observable) is corrupted inside the '
        'octet range of a CRC-protected block: EVERY single-bit flip of the enumerated seed bundles (exhaustive per '
        'bundle), and generated bundles with single flips and bursts of 2..16 (CRC-16) / 2..32 (CRC-32C) consecutive '
        'bits.  The corrupted octets are handed to the real agent receive callback; oracle: no application delivery, '
        'no octets to the convergence layer (no forward, no report), the seen-identity set does not grow, and the '
        'pristine encoding fed afterwards is still processed normally (black-box "was not recorded as seen").  '
        '(output) every byte string the agent hands to the convergence layer while originating, forwarding, '
        'fragmenting and reporting on generated bundles is parsed by the independent decoder: every block with CRC type '
        '!= 0 carries the CRC-16/X.25 or CRC-32C of its own octets with the CRC field zeroed (bit-serial reference), '
        'blocks with CRC type 0 have no CRC item.  Non-trivial (input) = corruption inside a protected block whose '
        'octets still parse as CBOR; (output) = emitted bundle with >= 2 protected blocks; distinct by SHA-1 of the case.')
SHRINK_KEYS = ()
ASSUMPTIONS = [
    'bit-serial CRC reference vlib/refcrc.py (checked against the catalogue values and against shims/crcmod)',
    'an exception out of the receive callback counts as "dropped" (the CL adaptor signal handler swallows it)',
]
EXHAUSTIVE_PART = 'every single-bit flip inside every CRC-protected block of the enumerated seed bundles'

NODE = 'dtn://me/'


def prepare():
    boot.bp()
    boot.udpcl()


def budgets(tier):
    if tier == 'quick':
        return dict(shards=16, examples=40)
    return dict(shards=16, examples=4500, deadline_s=3000)


def seed_bundle(index):
    ''' Deterministic small bundle number ``index`` (PRNG, not Hypothesis: the exhaustive part). '''
    from vlib import ref9171 as r
    rnd = random.Random(4000 + index)
    eids = [['dtn', '//src/'], ['dtn', '//a/b'], ['ipn', 7, 1], ['dtn', '//node-%d/x' % index], ['ipn', 300, 70000]]
    flags = r.FLAG_RPT_RECEPTION | r.FLAG_RPT_DELIVERY | r.FLAG_RPT_FORWARD | r.FLAG_RPT_DELETION
    if rnd.random() < 0.3:
        flags |= r.FLAG_STATUS_TIME
    frag = None
    if rnd.random() < 0.25:
        flags |= r.FLAG_FRAGMENT
        frag = [rnd.choice([0, 5, 24]), rnd.choice([30, 256])]
    crcs = [rnd.choice([1, 2]), rnd.choice([0, 1, 2]), rnd.choice([0, 1, 2]), rnd.choice([0, 1, 2])]
    pri = dict(version=7, flags=flags, crc_type=crcs[0],
               dest=['dtn', '//fwd/x'] if frag else rnd.choice([['dtn', '//me/svc'], ['dtn', '//fwd/x']]),
               src=rnd.choice(eids), rpt=['dtn', '//reports/'], ts=[rnd.choice([1000, 65536, 789004000000]), rnd.choice([0, 24, 300])],
               lifetime=rnd.choice([1000, 3600000]), frag=frag)
    blocks = []
    n_ext = rnd.choice([0, 1, 1, 2])
    for j in range(n_ext):
        kind = rnd.choice(['hop', 'prev', 'unknown', 'age'])
        data = {'hop': r.btsd_hop_count(30, 2), 'prev': r.btsd_previous_node(['dtn', '//before/']),
                'age': r.btsd_age(1234), 'unknown': bytes(rnd.randrange(256) for _ in range(rnd.choice([0, 3, 9]))).hex()}[kind]
        tcode = {'hop': 10, 'prev': 6, 'age': 7, 'unknown': 192}[kind]
        blocks.append(dict(type=tcode, num=2 + j, flags=rnd.choice([0, 1]), crc_type=crcs[1 + j], data=data))
    blocks.append(dict(type=1, num=1, flags=0, crc_type=crcs[3] or (1 if crcs[0] == 0 else crcs[3]),
                       data=bytes(rnd.randrange(256) for _ in range(rnd.choice([0, 1, 8, 24, 30]))).hex()))
    return {'primary': pri, 'blocks': blocks}


def protected_bits(bundle):
    ''' Bit positions (octet*8+bit) inside CRC-protected blocks of the reference encoding. '''
    from vlib import ref9171 as r
    wire = r.encode(bundle)
    dec = r.decode(wire)
    spans = []
    if dec['primary']['crc_type']:
        spans.append(dec['primary']['span'])
    for blk in dec['blocks']:
        if blk['crc_type']:
            spans.append(blk['span'])
    bits = []
    for start, end in spans:
        bits += range(start * 8, end * 8)
    return wire, bits


def enumerate_cases(tier):
    n_bundles = 24 if tier == 'quick' else 400
    chunk = 64
    for idx in range(n_bundles):
        _wire, bits = protected_bits(seed_bundle(idx))
        for pos in range(0, len(bits), chunk):
            yield {'kind': 'input', 'seed_bundle': idx, 'faults': [[b, 1] for b in bits[pos:pos + chunk]]}
    # every other value of every protected octet (all error patterns confined to one octet, among them the ones that
    # turn one CBOR item into another item of the same length: uint 1 <-> true, uint 0 <-> false, ...)
    for idx in range(3 if tier == 'quick' else 40):
        _wire, bits = protected_bits(seed_bundle(idx))
        for first in bits[::8]:
            yield {'kind': 'input', 'seed_bundle': idx, 'faults': [[first, 8, pattern] for pattern in range(1, 256)]}
    # the same through a real UDPCL agent, which cuts the bundle message out of the datagram before the BP agent sees it
    for idx in range(3 if tier == 'quick' else 40):
        _wire, bits = protected_bits(seed_bundle(idx))
        for first in bits[::8]:
            yield {'kind': 'input', 'seed_bundle': idx, 'via': 'udpcl', 'faults': [[first, 8, pattern] for pattern in range(1, 256)]}


@st.composite
def input_cases(draw):
    from vlib import strat, ref9171 as r
    bundle = draw(strat.bundles(max_ext=2, admin=False, payload_max=60, crc_types=(1, 2, 0)))
    if not any(b['crc_type'] for b in bundle['blocks']) and not bundle['primary']['crc_type']:
        bundle['primary']['crc_type'] = draw(st.sampled_from([1, 2]))
    bundle['primary']['flags'] |= r.FLAG_RPT_RECEPTION | r.FLAG_RPT_DELIVERY | r.FLAG_RPT_FORWARD | r.FLAG_RPT_DELETION
    bundle['primary']['rpt'] = ['dtn', '//reports/']
    bundle['primary']['dest'] = draw(st.sampled_from([['dtn', '//me/svc'], ['dtn', '//fwd/x']]))
    if bundle['primary']['frag'] is not None:
        bundle['primary']['dest'] = ['dtn', '//fwd/x']    # a fragment addressed to this node only enters reassembly
    if r.eid_text(bundle['primary']['src']) in (NODE, 'dtn:none'):
        bundle['primary']['src'] = ['dtn', '//src/']
    _wire, bits = protected_bits(bundle)
    faults = []
    for _ in range(draw(st.integers(1, 12))):
        start = draw(st.sampled_from(bits))
        width = draw(st.one_of(st.just(1), st.integers(2, 32)))
        pattern = draw(st.integers(1, 2 ** width - 1)) | 1 | (1 << (width - 1))
        faults.append([start, width, pattern])
    return {'kind': 'input', 'bundle': bundle, 'faults': faults, 'via': draw(st.sampled_from([None, None, 'udpcl']))}


@st.composite
def output_cases(draw):
    from vlib import strat, ref9171 as r
    bundle = draw(strat.bundles(max_ext=3, admin=False, payload_max=300))
    bundle['primary']['flags'] |= draw(strat.flag_sets(strat.REPORT_FLAGS))
    bundle['primary']['flags'] &= ~r.FLAG_FRAGMENT
    bundle['primary']['frag'] = None
    bundle['primary']['rpt'] = draw(st.sampled_from([['dtn', '//reports/'], ['dtn', 'none'], ['ipn', 4, 4]]))
    if r.eid_text(bundle['primary']['src']) in (NODE, 'dtn:none'):
        bundle['primary']['src'] = ['dtn', '//src/']
    return {'kind': 'output', 'bundle': bundle, 'mode': draw(st.sampled_from(['originate', 'forward', 'deliver', 'delete', 'fragment'])),
            'objform': draw(st.booleans())}


def strategy(tier):
    return st.one_of(input_cases(), output_cases())


def pinned_cases():
    yield 'seed-0-first-bits', {'kind': 'input', 'seed_bundle': 0, 'faults': [[b, 1] for b in range(8, 40)]}
    yield 'output-forward', {'kind': 'output', 'bundle': seed_bundle(3), 'mode': 'forward', 'objform': False}


def apply_fault(wire, fault):
    start, width = fault[0], fault[1]
    pattern = fault[2] if len(fault) > 2 else (1 << width) - 1
    data = bytearray(wire)
    for k in range(width):
        if pattern >> k & 1:
            bit = start + k
            if bit // 8 < len(data):
                data[bit // 8] ^= 0x80 >> (bit % 8)
    return bytes(data)


def make_node():
    from vlib import bp_world as bw
    bw.reset()
    return bw.Node(NODE, rx_routes=[('^dtn://me/', 'deliver'), ('^dtn://fwd/', 'forward'), ('^dtn://del/', 'delete')],
                   tx_routes=[('.*', 'dtn://next/', None)])


def run_input(case, out):
    from vlib import ref9171 as r, cborpull
    bundle = case['bundle'] if 'bundle' in case else seed_bundle(case['seed_bundle'])
    wire = r.encode(bundle)
    node = make_node()
    udp = None
    if case.get('via') == 'udpcl' and len(wire) < 60000:
        from vlib import udpcl_machine as um, simudp
        simudp.NET.reset()
        udp = um.Agent('10.0.0.9', listen_port=4556, node_id='dtn://me/')
        udp.settle()
        out.label('via-udpcl')
    nontrivial = False
    collided = False
    for fault in case['faults']:
        bad = apply_fault(wire, fault)
        if bad == wire:
            continue
        if _giant_head(bad, fault[0] // 8, fault[1]):
            # a head that now announces millions of octets / items: the decoding libraries allocate what is announced
            # (gigabytes, or an abort of the process under the harness memory limit) before the bundle is dropped;
            # kept out for the cost, counted
            out.excluded.append('giant-announced-length')
            continue
        out.count('corruptions_fed')
        out.count('single_bit_flips' if fault[1] == 1 else ('octet_substitutions' if len(case['faults']) == 255 else 'bursts'))
        n_rec, n_sent, n_seen = len(node.records(False)), len(node.sent()), len(node.agent._seen_bundle_ident)
        if udp is not None:
            # the datagram reaches a real UDPCL agent first; what that agent announces as received bundles is handed on
            before = len(udp.signals('recv_bundle_finished'))
            simudp.NET.deliver(dict(src=('10.0.0.7', 4556), dst=('10.0.0.9', 4556), data=bad))
            udp.settle()
            for ev in udp.signals('recv_bundle_finished')[before:]:
                got = udp.call('recv_bundle_pop_data', ev['args'][0])
                if not hasattr(got, 'exc'):
                    out.count('handed-on-by-udpcl')
                    if bytes(got) != bad:
                        out.count('handed-on-by-udpcl-differs-from-datagram')
                    node.receive(bytes(got))
        else:
            node.receive(bad)
        decodes = True
        try:
            cborpull.parse_all(bad)
        except Exception:
            decodes = False
        if decodes:
            nontrivial = True
            out.count('corruptions_still_cbor')
        new_rec = node.records(False)[n_rec:]
        new_sent = node.sent()[n_sent:]
        grew = len(node.agent._seen_bundle_ident) - n_seen
        if new_rec or new_sent or grew:
            try:
                got = r.decode(bad)
                if r.all_crc_ok(got):
                    # the damaged octets are a well-formed bundle again in which every CRC holds (a burst wider than the
                    # CRC of the block it hit that happens to collide, one chance in 2^16 for CRC-16): no receiver can
                    # tell it from a bundle that was sent like that
                    out.count('corruptions_undetectable')
                    collided = True
                    continue
                why = 'reference decoder: well-formed, crc ok=%s' % r.all_crc_ok(got)
                klass = 'wellformed'
            except r.RefError as exc:
                why = 'reference decoder: %s' % exc
                klass = 'malformed'
            from bp.encoding import Bundle
            try:
                same = bytes(Bundle(bad)) == wire
            except Exception:
                same = False
            bucket = 'corrupt-accepted:%s%s' % (klass, ':reencodes-to-original' if same else '')
            where = _locate(bundle, wire, fault[0] // 8)
            out.fail(bucket, 'bundle corrupted at bit %d width %d (%s, octet 0x%02x -> 0x%02x) was processed: %d application '
                     'step(s), %d bundle(s) to the CL, seen-set +%d; %s'
                     % (fault[0], fault[1], where, wire[fault[0] // 8], bad[fault[0] // 8], len(new_rec), len(new_sent), grew, why))
    # black box: the pristine bundle is still news to the agent
    n_rec, n_sent = len(node.records(False)), len(node.sent())
    err = None
    if udp is not None:
        before = len(udp.signals('recv_bundle_finished'))
        simudp.NET.deliver(dict(src=('10.0.0.7', 4556), dst=('10.0.0.9', 4556), data=wire))
        udp.settle()
        for ev in udp.signals('recv_bundle_finished')[before:]:
            got = udp.call('recv_bundle_pop_data', ev['args'][0])
            err = node.receive(bytes(got))
    else:
        err = node.receive(wire)
    if err is not None:
        out.fail('pristine-raises', 'the pristine bundle raised %s: %s' % (type(err).__name__, err))
    elif len(node.sent()) == n_sent and len(node.records(False)) == n_rec and not collided:
        out.fail('pristine-ignored-after-corrupt', 'after the corrupted copies the pristine bundle is ignored (already recorded as seen?)')
    out.nontrivial = nontrivial
    out.label('input', 'faults:%s' % ('1bit' if all(f[1] == 1 for f in case['faults']) else 'burst'))


def _giant_head(data, octet, width_bits):
    ''' Does an octet touched by the fault read as a CBOR head with a 4- or 8-octet argument of 2^22 or more? '''
    for pos in range(octet, min(len(data), octet + (width_bits + 14) // 8)):
        info = data[pos] & 0x1f
        size = {26: 4, 27: 8}.get(info)
        if size and int.from_bytes(data[pos + 1:pos + 1 + size].ljust(size, b'\x00'), 'big') >= 2 ** 22:
            return True
        if data[pos] in (0xc2, 0xc3) and pos + 1 < len(data) and data[pos + 1] >> 5 == 2 and (data[pos + 1] & 0x1f) >= 3:
            # a bignum tag in front of a byte string: an integer of 2^16 and more where a byte string is expected is
            # turned into that many zero octets (scapy_cbor BstrField.m2i: bytes(int)) - minutes and gigabytes
            return True
    return False


def _locate(bundle, wire, octet):
    from vlib import ref9171 as r
    dec = r.decode(wire)
    if dec['primary']['span'][0] <= octet < dec['primary']['span'][1]:
        return 'primary block +%d' % (octet - dec['primary']['span'][0])
    for blk in dec['blocks']:
        if blk['span'][0] <= octet < blk['span'][1]:
            return 'block number %d type %d +%d' % (blk['num'], blk['type'], octet - blk['span'][0])
    return 'framing'


def run_output(case, out):
    from vlib import ref9171 as r, bpconv
    from bp.util import BundleContainer
    node = make_node()
    bundle = case['bundle']
    mode = case['mode']
    if mode == 'originate' or mode == 'fragment':
        obj = bpconv.to_repo(bundle, objform=bool(case.get('objform')))
        if mode == 'fragment':
            empty = dict(bundle, blocks=bundle['blocks'][:-1] + [dict(bundle['blocks'][-1], data='')])
            # feasible fragmentation only (an MTU below the header size is C05's subject)
            node.set_mtu(0, len(r.encode(empty)) + 60)
        node.send(BundleContainer(obj))
    else:
        dest = {'forward': ['dtn', '//fwd/x'], 'deliver': ['dtn', '//me/svc'], 'delete': ['dtn', '//del/x']}[mode]
        bundle = dict(bundle, primary=dict(bundle['primary'], dest=dest))
        node.receive(r.encode(bundle))
    protected_max = 0
    for data in node.sent():
        try:
            dec = r.decode(data)
        except r.RefError as exc:
            out.fail('output-not-wellformed', 'octets handed to the CL (%s) are not an RFC 9171 bundle: %s' % (mode, exc))
            continue
        prot = (1 if dec['primary']['crc_type'] else 0) + sum(1 for b in dec['blocks'] if b['crc_type'])
        protected_max = max(protected_max, prot)
        if not dec['primary']['crc_ok']:
            out.fail('output-crc-invalid:primary', 'primary block CRC (type %d) of an emitted bundle (%s) is wrong'
                     % (dec['primary']['crc_type'], mode))
        for blk in dec['blocks']:
            if not blk['crc_ok']:
                out.fail('output-crc-invalid:block-type-%d' % (blk['type'] if blk['type'] in (1, 6, 7, 10, 11, 12) else 0),
                         'CRC (type %d) of block number %d type %d of an emitted bundle (%s) is wrong'
                         % (blk['crc_type'], blk['num'], blk['type'], mode))
    for esc in node.escapes():
        out.fail('escape:%s@%s' % (esc.exc_type, esc.frame), 'exception escaped a main-loop callback: %s: %s' % (esc.exc_type, esc.exc_msg[:120]))
    out.nontrivial = protected_max >= 2
    out.label('output', 'mode:' + mode, 'emitted:%d' % min(len(node.sent()), 5))


def execute(case):
    out = Outcome()
    if case['kind'] == 'input':
        run_input(case, out)
    else:
        run_output(case, out)
    return out
