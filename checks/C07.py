''' C07 - TCPCL message framing is independent of how TCP chunks the stream. '''
import itertools
import random

from hypothesis import strategies as st

from vlib import boot
from vlib.engine import Outcome

PROPERTY = 'C07'
RULE = ('(split) streams holding an unknown message type code, which no reference can frame, and streams in which the reply to the endpoint own SESS_TERM arrives together with further legal messages, are fed to fresh endpoints '
        'under four cut sets (handshake then all at once, header/handshake/rest, octet by octet, generated cuts): the '
        'acted-on sequence, the octets written and the closed state must be the same for all four.  '
        '(stream) A conforming peer stream (contact header, SESS_INIT with extension items, well-formed transfers with '
        '0..30000-octet segments and extension items, KEEPALIVE, MSG_REJECT, XFER_ACK for a queued transfer, optional '
        'SESS_TERM) is rendered by the independent RFC 9174 encoder and fed to one real ContactHandler (active or '
        'passive) through the simulated socket under a generated cut set: every single cut position and one octet at a '
        'time (enumerated), cuts at +-1 around every message boundary and random multi-cuts (Hypothesis), and ALL '
        '2^(n-1) compositions of short post-handshake streams (exhaustive).  recv_message/recv_raw are wrapped to log '
        '(read number, message); oracle: logged sequence == independent parse of the stream, each message is logged in '
        'the read that contains its last octet, recv_buffer_used() after each read == length of the incomplete tail. '
        '(codec) every message type with arbitrary field values: repo encode -> independent decode and independent '
        'encode -> repo decode give the same fields.  Non-trivial = stream with >= 3 messages whose cut set splits at '
        'least one message strictly inside; distinct by SHA-1 of the case.')
SHRINK_KEYS = ('msgs', 'cuts')
ASSUMPTIONS = [
    'independent RFC 9174 codec vlib/ref9174.py; MSG_REJECT octet order follows the pinned unit-test vector',
    'a "read" is one recv() of at most CHUNK_SIZE octets on the simulated socket',
    'without TLS octets may follow the contact header in the same read (ch_joined cases); with the scripted TLS each delivered chunk is one record of at most 16384 octets',
    'XFER_REFUSE and XFER_ACK for unknown transfers are left to C17 (they raise in the handler, not in the framing)',
]
EXHAUSTIVE_PART = 'all 2^(n-1) cut compositions of post-handshake streams up to 12 (quick) / 16 (thorough) octets; every single cut and octet-at-a-time for all enumerated streams'


def prepare():
    boot.tcpcl()


def budgets(tier):
    if tier == 'quick':
        return dict(shards=16, examples=60)
    return dict(shards=16, examples=7500, deadline_s=3000)


# --- conversions between repo packets and reference messages -----------------------------

def _ext_to_ref(items):
    out = []
    for item in items or []:
        if not hasattr(item, 'length') or 'type' not in item.fields:
            out.append({'undecoded': bytes(item).hex()})   # scapy fell back to an opaque layer
            continue
        out.append({'flags': int(item.getfieldval('flags')), 'type': int(item.getfieldval('type')),
                    'value': bytes(item.payload).hex() if item.payload else ''})
    return out


def repo_to_ref(pkt):
    from tcpcl import contact, messages
    from vlib import ref9174 as r
    if isinstance(pkt, contact.Head):
        return {'t': 'CH', 'magic': bytes(pkt.getfieldval('magic')).hex(), 'version': int(pkt.getfieldval('version')),
                'flags': int(pkt.payload.getfieldval('flags'))}
    code = int(pkt.getfieldval('msg_id'))
    kind = r.TYPE_NAMES.get(code, 'UNKNOWN')
    pay = pkt.payload
    if kind == 'KEEPALIVE':
        return {'t': kind}
    if kind == 'SESS_INIT':
        return {'t': kind, 'keepalive': int(pay.keepalive), 'segment_mru': int(pay.segment_mru),
                'transfer_mru': int(pay.transfer_mru), 'nodeid': pay.getfieldval('nodeid_data').decode('utf-8'),
                'ext': _ext_to_ref(pay.ext_items)}
    if kind == 'SESS_TERM':
        return {'t': kind, 'flags': int(pay.getfieldval('flags')), 'reason': int(pay.getfieldval('reason'))}
    if kind == 'MSG_REJECT':
        return {'t': kind, 'rej_msg_id': int(pay.getfieldval('rej_msg_id')), 'reason': int(pay.getfieldval('reason'))}
    if kind == 'XFER_ACK':
        return {'t': kind, 'flags': int(pay.getfieldval('flags')), 'id': int(pay.transfer_id), 'length': int(pay.length)}
    if kind == 'XFER_REFUSE':
        return {'t': kind, 'reason': int(pay.getfieldval('reason')), 'id': int(pay.transfer_id)}
    if kind == 'XFER_SEGMENT':
        flags = int(pay.getfieldval('flags'))
        msg = {'t': kind, 'flags': flags, 'id': int(pay.transfer_id), 'data': bytes(pay.getfieldval('data')).hex()}
        if flags & r.SEG_START:
            msg['ext'] = _ext_to_ref(pay.ext_items)
        return msg
    return {'t': 'UNKNOWN', 'code': code}


def ref_to_repo(msg):
    from scapy import packet
    from tcpcl import messages
    kind = msg['t']

    def exts(cls, items):
        out = []
        for item in items or []:
            hdr = cls(flags=item['flags'], type=item['type'])
            val = bytes.fromhex(item['value'])
            out.append(hdr / packet.Raw(val) if val else hdr)
        return out
    head = messages.MessageHead()
    if kind == 'KEEPALIVE':
        return head / messages.Keepalive()
    if kind == 'SESS_INIT':
        return head / messages.SessionInit(keepalive=msg['keepalive'], segment_mru=msg['segment_mru'],
                                           transfer_mru=msg['transfer_mru'], nodeid_data=msg['nodeid'],
                                           ext_items=exts(messages.SessionExtendHeader, msg.get('ext')))
    if kind == 'SESS_TERM':
        return head / messages.SessionTerm(flags=msg['flags'], reason=msg['reason'])
    if kind == 'MSG_REJECT':
        return head / messages.RejectMsg(rej_msg_id=msg['rej_msg_id'], reason=msg['reason'])
    if kind == 'XFER_ACK':
        return head / messages.TransferAck(flags=msg['flags'], transfer_id=msg['id'], length=msg['length'])
    if kind == 'XFER_REFUSE':
        return head / messages.TransferRefuse(reason=msg['reason'], transfer_id=msg['id'])
    if kind == 'XFER_SEGMENT':
        kwargs = dict(flags=msg['flags'], transfer_id=msg['id'], data=bytes.fromhex(msg['data']))
        if msg['flags'] & 2:
            kwargs['ext_items'] = exts(messages.TransferExtendHeader, msg.get('ext'))
        return head / messages.TransferSegment(**kwargs)
    raise ValueError(kind)


def _norm(msg):
    msg = {k: v for k, v in msg.items() if k != 'end'}
    if msg['t'] == 'XFER_SEGMENT' and not msg['flags'] & 2:
        msg.pop('ext', None)
    return msg


# --- generators --------------------------------------------------------------------------------

def _default_init():
    return {'t': 'SESS_INIT', 'keepalive': 0, 'segment_mru': 2 ** 20, 'transfer_mru': 2 ** 40, 'nodeid': 'dtn://peer/',
            'ext': []}


def _render(case):
    ''' :return: (stream bytes, reference message list with 'end' offsets) '''
    from vlib import ref9174 as r, strat9174 as s9
    msgs = [{'t': 'CH', 'magic': r.MAGIC.hex(), 'version': 4, 'flags': 1 if case.get('tls') else 0}, case.get('sess_init') or _default_init()]
    msgs += [s9.expand(m) for m in case['msgs']]
    data = b''
    out = []
    for msg in msgs:
        data += r.encode(msg)
        ref = _norm(msg)
        ref['end'] = len(data)
        out.append(ref)
    return data, out


@st.composite
def stream_cases(draw):
    from vlib import ref9174 as r, strat9174 as s9
    active = draw(st.booleans())
    case = {'kind': 'stream', 'active': active,
            'sess_init': draw(s9.sess_inits()) if draw(st.booleans()) else None,
            'msgs': draw(s9.session_streams(with_ack_for=1)), 'queue_own': True}
    data, refs = _render(case)
    total = len(data)
    bounds = [m['end'] for m in refs]
    mode = draw(st.sampled_from(['around-boundaries', 'random', 'random', 'at-boundaries', 'chunk']))
    if mode == 'around-boundaries':
        cuts = set()
        for bnd in draw(st.lists(st.sampled_from(bounds), min_size=1, max_size=6)):
            for delta in draw(st.lists(st.sampled_from([-2, -1, 1, 2, 3, 9, 10, 17, 18]), min_size=1, max_size=3)):
                cuts.add(bnd + delta)
    elif mode == 'random':
        cuts = set(draw(st.lists(st.integers(1, max(1, total - 1)), max_size=12)))
    elif mode == 'at-boundaries':
        cuts = set(draw(st.lists(st.sampled_from(bounds), max_size=6)))
    else:
        step = draw(st.sampled_from([1, 2, 3, 5, 7, 64, 1000, 10240]))
        if total // step > 400:
            step = max(step, total // 400)
        cuts = set(range(step, total, step))
    case['cuts'] = sorted(c for c in cuts if 0 < c < total)
    case['ch_joined'] = draw(st.booleans())
    case['tls'] = draw(st.sampled_from([False, False, True]))
    case['local_tls'] = draw(st.booleans())
    return case


@st.composite
def split_cases(draw):
    ''' Streams with an unknown message type code somewhere (what follows it cannot be framed by anybody). '''
    simple = st.sampled_from([{'t': 'KEEPALIVE'}, {'t': 'MSG_REJECT', 'rej_msg_id': 4, 'reason': 1},
                              {'t': 'XFER_ACK', 'flags': 0, 'id': 900, 'length': 3},
                              {'t': 'XFER_SEGMENT', 'flags': 3, 'id': 5, 'dlen': 4, 'dseed': 1, 'ext': []}])
    unknown = st.integers(8, 255).map(lambda code: {'t': 'UNKNOWN-CODE', 'code': code})
    before = draw(st.lists(simple, max_size=2))
    after = draw(st.lists(st.one_of(simple, simple, unknown), min_size=1, max_size=4))
    if draw(st.integers(0, 2)) == 0:
        # the endpoint has asked for termination itself; the peer's answer arrives together with other legal messages
        term = {'t': 'SESS_TERM', 'flags': 1, 'reason': 0}
        msgs = draw(st.lists(simple, max_size=2)) + [term] + draw(st.lists(st.sampled_from([{'t': 'KEEPALIVE'}, {'t': 'MSG_REJECT', 'rej_msg_id': 4, 'reason': 1}]), min_size=1, max_size=2))
        return {'kind': 'split', 'active': draw(st.booleans()), 'msgs': msgs, 'own_terminate': True,
                'cuts': draw(st.lists(st.integers(1, 40), max_size=5))}
    return {'kind': 'split', 'active': draw(st.booleans()), 'msgs': before + [draw(unknown)] + after,
            'cuts': draw(st.lists(st.integers(1, 60), max_size=5))}


def strategy(tier):
    from vlib import strat9174 as s9
    codec = st.fixed_dictionaries({'kind': st.just('codec'), 'msg': s9.any_message()})
    return st.one_of(stream_cases(), stream_cases(), codec, split_cases())


def _short_streams(tier):
    ''' Post-handshake streams small enough for exhaustive cutting. '''
    limit = 12 if tier == 'quick' else 16
    ka = {'t': 'KEEPALIVE'}
    term = {'t': 'SESS_TERM', 'flags': 0, 'reason': 3}
    rej = {'t': 'MSG_REJECT', 'rej_msg_id': 4, 'reason': 1}
    pool = [
        [ka], [ka, ka, ka], [rej], [term], [ka, term], [rej, ka], [ka, rej, ka], [rej, rej], [rej, term],
        [ka, rej, rej, ka], [rej, ka, term], [ka, ka, rej, term], [rej, rej, rej], [rej, rej, ka, term],
        [ka, rej, ka, rej, ka, term],
    ]
    out = []
    for msgs in pool:
        from vlib import ref9174 as r
        size = sum(len(r.encode(m)) for m in msgs)
        if size <= limit:
            out.append(msgs)
    return out


def enumerate_cases(tier):
    from vlib import ref9174 as r
    rnd = random.Random(7)
    # (1) all compositions of short post-handshake streams (handshake delivered whole, then every cut set)
    for active in (False, True):
        for msgs in _short_streams(tier):
            base = {'kind': 'stream', 'active': active, 'sess_init': None, 'msgs': msgs, 'queue_own': False}
            data, refs = _render(base)
            start = refs[1]['end']
            tail = len(data) - start
            positions = list(range(start + 1, len(data)))
            for mask in range(2 ** len(positions)):
                cuts = [start] + [p for i, p in enumerate(positions) if mask >> i & 1]
                yield dict(base, cuts=cuts)
    # (2) every single cut and octet-at-a-time over fixed longer streams (including the handshake octets)
    seg = lambda fl, tid, n, ext=None: dict({'t': 'XFER_SEGMENT', 'flags': fl, 'id': tid, 'dlen': n, 'dseed': n},
                                            **({'ext': ext} if ext is not None else {}))
    fixed = [
        [{'t': 'KEEPALIVE'}],
        [seg(3, 5, 4, [r.transfer_length_ext(4)]), {'t': 'KEEPALIVE'}],
        [seg(2, 1, 0, [r.transfer_length_ext(3)]), seg(0, 1, 2), {'t': 'KEEPALIVE'}, seg(1, 1, 1),
         {'t': 'MSG_REJECT', 'rej_msg_id': 1, 'reason': 3}, {'t': 'SESS_TERM', 'flags': 0, 'reason': 0}],
        [seg(3, 2 ** 64 - 1, 0, []), seg(3, 0, 300, [{'flags': 0, 'type': 0x1234, 'value': 'aabb'},
                                                  r.transfer_length_ext(300)])],
        [{'t': 'XFER_ACK', 'flags': 0, 'id': 1, 'length': 2}, {'t': 'KEEPALIVE'}, {'t': 'KEEPALIVE'}],
    ]
    # under TLS: a segment larger than one read (10240) inside one record, and a small message in the tail of such a record
    for active in (False, True):
        big = {'t': 'XFER_SEGMENT', 'flags': 3, 'id': 5, 'dlen': 12000, 'dseed': 2, 'ext': [r.transfer_length_ext(12000)]}
        for msgs in ([big], [big, {'t': 'KEEPALIVE'}], [dict(big, dlen=10235, ext=[r.transfer_length_ext(10235)]), {'t': 'KEEPALIVE'}, {'t': 'KEEPALIVE'}]):
            base = {'kind': 'stream', 'active': active, 'sess_init': None, 'msgs': msgs, 'queue_own': False, 'tls': True}
            data, refs = _render(base)
            yield dict(base, cuts=[refs[1]['end']])
            yield dict(base, cuts=[refs[1]['end'], refs[1]['end'] + 4000, refs[1]['end'] + 8000])
    inits = [None, {'t': 'SESS_INIT', 'keepalive': 30, 'segment_mru': 64, 'transfer_mru': 2 ** 64 - 1,
                    'nodeid': 'dtn://' + 'n' * 20 + '/', 'ext': [{'flags': 0, 'type': 0x00fe, 'value': '010203'}]}]
    for active in (False, True):
        for msgs in fixed:
            for init in inits:
                base = {'kind': 'stream', 'active': active, 'sess_init': init, 'msgs': msgs, 'queue_own': True}
                data, _refs = _render(base)
                yield dict(base, cuts=[], ch_joined=True)
                for cut in range(1, len(data)):
                    yield dict(base, cuts=[cut])
                    yield dict(base, cuts=[cut], ch_joined=True)
                yield dict(base, cuts=list(range(1, len(data))))
                for _ in range(6):
                    yield dict(base, cuts=sorted(rnd.sample(range(1, len(data)), min(5, len(data) - 1))),
                               ch_joined=bool(rnd.getrandbits(1)))


def pinned_cases():
    yield 'own-terminate-reply-and-keepalive', {'kind': 'split', 'active': False, 'cuts': [3], 'own_terminate': True,
                                                'msgs': [{'t': 'SESS_TERM', 'flags': 1, 'reason': 0}, {'t': 'KEEPALIVE'}]}
    yield 'unknown-type-then-keepalives', {'kind': 'split', 'active': False, 'cuts': [1],
                                           'msgs': [{'t': 'UNKNOWN-CODE', 'code': 0x99}, {'t': 'KEEPALIVE'}, {'t': 'KEEPALIVE'}]}
    yield 'keepalive-ends-read', {'kind': 'stream', 'active': False, 'sess_init': None, 'queue_own': False,
                                  'msgs': [{'t': 'KEEPALIVE'}], 'cuts': []}
    yield 'contact-header-and-sess-init-in-one-read', {'kind': 'stream', 'active': True, 'sess_init': None,
                                                       'queue_own': False, 'ch_joined': True,
                                                       'msgs': [{'t': 'KEEPALIVE'}], 'cuts': []}
    many = [{'flags': 0, 'type': 0x1234, 'value': ''}] * 101
    yield 'sess-init-with-101-extension-items', {'kind': 'stream', 'active': False, 'queue_own': False, 'cuts': [40],
                                                 'sess_init': dict(_default_init(), ext=many), 'msgs': [{'t': 'KEEPALIVE'}]}
    yield 'segment-with-101-extension-items', {'kind': 'stream', 'active': True, 'queue_own': False, 'cuts': [],
                                               'sess_init': None, 'msgs': [{'t': 'XFER_SEGMENT', 'flags': 3, 'id': 5, 'dlen': 4, 'dseed': 1, 'ext': many}, {'t': 'KEEPALIVE'}]}
    yield 'tls-offered-locally-only-header-and-sess-init-in-one-read', {'kind': 'stream', 'active': True, 'sess_init': None, 'queue_own': False,
                                                                        'ch_joined': True, 'local_tls': True, 'msgs': [{'t': 'KEEPALIVE'}], 'cuts': []}
    yield 'contact-split', {'kind': 'stream', 'active': False, 'sess_init': None, 'queue_own': False,
                            'msgs': [{'t': 'KEEPALIVE'}, {'t': 'KEEPALIVE'}], 'cuts': [3, 6, 20]}


# --- execution -----------------------------------------------------------------------------------

def run_stream(case, out):
    from vlib import tcpcl_world as tw, ref9174 as r
    import dbus
    data, refs = _render(case)
    total = len(data)
    # ch_joined: the octets after the contact header may share a read with it (a passive peer that has already seen
    # our header may send its header and SESS_INIT in one flight; the property quantifies over every split anyway)
    tls = bool(case.get('tls'))
    cuts = sorted(set([c for c in case.get('cuts', []) if 0 < c < total] + ([] if case.get('ch_joined') and not tls else [6])))
    active = bool(case.get('active'))
    if tls:
        # under (scripted) TLS the octets reach the endpoint in records: one record per delivered chunk, at most 16384
        # octets, read through a socket that keeps what was not asked for (see FakeTLSSocket)
        cfg = tw.make_config('dtn://real/', tls_enable=True, tls_script={'handshake': 'ok', 'peer_cert_der': None, 'records': True})
    elif case.get('local_tls'):
        # the endpoint offers TLS, the peer does not: the session goes on in the clear, and what follows the peer's
        # contact header in the same read is the next message like anywhere else
        cfg = tw.make_config('dtn://real/', tls_enable=True, tls_script={'handshake': 'ok', 'peer_cert_der': None})
        out.label('tls-offered-locally-only')
    else:
        cfg = tw.make_config('dtn://real/')
    world = tw.World(cfg, scripted=True, real_is_passive=not active)
    end = world.real
    hdl = end.hdl
    log = []          # (read_no, ref message)
    reads = []        # (read_no, cumulative octets, buffer used after)
    state = dict(read=0, consumed=0, handler_errors=[])
    orig_recv_message = hdl.recv_message
    orig_recv_raw = hdl.recv_raw

    def recv_message(pkt):
        try:
            log.append((state['read'], repo_to_ref(pkt)))
        except Exception as err:   # cannot even read the fields back
            log.append((state['read'], {'t': 'UNREADABLE', 'err': '%s: %s' % (type(err).__name__, err)}))
        return orig_recv_message(pkt)

    def recv_raw(chunk):
        state['read'] += 1
        state['consumed'] += len(chunk)
        try:
            return orig_recv_raw(chunk)
        finally:
            reads.append((state['read'], state['consumed'], hdl.recv_buffer_used()))

    hdl.recv_message = recv_message
    hdl.recv_raw = recv_raw
    if case.get('queue_own'):
        end.call('send_bundle_data', dbus.ByteArray(b'own-bundle-data'))
    # the real endpoint speaks first when active
    for _ in range(8):
        if not end.ctx.iterate():
            break
    pos = 0
    for nxt in cuts + [total]:
        world.peer_sock.send(data[pos:nxt])
        pos = nxt
        world.tx_pipe.deliver()
        for _ in range(200):
            if end.sock.closed or not end.ctx.iterate():
                break
        if end.sock.closed:
            break
    # oracle
    want = [m for m in refs]
    got = [m for (_rd, m) in log]
    n_ok = 0
    for idx, ref in enumerate(want):
        exp = {k: v for k, v in ref.items() if k != 'end'}
        if idx >= len(got):
            break
        if got[idx] != exp:
            out.fail('message-differs', 'message %d acted on as %s, stream holds %s (cuts %s)'
                     % (idx, _short(got[idx]), _short(exp), cuts[:8]))
            return
        n_ok += 1
    closed_early = end.sock.closed
    if closed_early and not tls and len(got) == 1 and len(want) >= 2 and any(cum >= want[1]['end'] for _r, cum, _b in reads):
        # (no TLS handshake follows this contact header: nothing entitles the endpoint to drop what comes behind it)
        out.fail('closed-after-contact-header', 'the endpoint closed after the peer\'s (valid) contact header without acting on the complete '
                 '%s behind it (cuts %s, TLS offered locally %s, by the peer no)' % (want[1]['t'], cuts[:8], bool(case.get('local_tls'))))
    if len(got) > len(want):
        out.fail('phantom-message', 'receiver acted on %d messages, stream holds %d' % (len(got), len(want)))
    elif len(got) < len(want) and not closed_early:
        missing = want[len(got)]
        out.fail('message-not-acted-on:%s' % missing['t'], 'complete %s (stream offset %d..%d of %d) was never acted on '
                 '(cuts %s); receive buffer holds %d octets' % (missing['t'], want[len(got) - 1]['end'] if got else 0,
                                                                missing['end'], total, cuts[:8], hdl.recv_buffer_used()))
    # timing: each message is acted on in the read that contains its last octet
    read_end = {rd: cum for rd, cum, _b in reads}
    for idx, (rd, _m) in enumerate(log[:n_ok]):
        end_off = want[idx]['end']
        first_read = next((r_no for r_no, cum, _b in reads if cum >= end_off), None)
        if first_read is None or rd == 0:
            continue
        if rd != first_read:
            out.fail('acted-late' if rd > first_read else 'acted-early',
                     '%s ending at stream offset %d was acted on in read %d (stream position %d) instead of read %d'
                     % (want[idx]['t'], end_off, rd, read_end.get(rd, -1), first_read))
            break
    # buffer occupancy after each read == incomplete tail
    if not closed_early:
        ends = [0] + [m['end'] for m in want]
        for rd, cum, used in reads:
            tail = cum - max(e for e in ends if e <= cum)
            if used != tail:
                out.fail('buffer-occupancy', 'after read %d (stream position %d) the receive buffer holds %d octets, '
                         'incomplete tail is %d' % (rd, cum, used, tail))
                break
    for esc in world.escapes():
        out.fail('escape:%s@%s' % (esc.exc_type, esc.frame), 'exception escaped the receive callback: %s: %s'
                 % (esc.exc_type, esc.exc_msg[:120]))
    bounds = set(m['end'] for m in want)
    split_inside = any(c not in bounds for c in cuts)
    out.nontrivial = len(want) >= 3 and split_inside
    if tls:
        out.label('tls-records')
    out.label('ch-joined' if case.get('ch_joined') and (not cuts or cuts[0] > 6) else 'ch-alone')
    out.label('active' if active else 'passive', 'msgs:%d' % min(len(want), 9),
              'split-inside' if split_inside else 'no-split', 'cuts:%s' % ('0' if not cuts else ('1' if len(cuts) == 1 else 'many')))
    for ref in want:
        out.label('type:' + ref['t'])
    if any(m['t'] == 'XFER_SEGMENT' and len(m['data']) // 2 > 10240 for m in want):
        out.label('segment>CHUNK_SIZE')
    if any(m['t'] == 'XFER_SEGMENT' and len(m['data']) == 0 for m in want):
        out.label('zero-length-segment')


def _short(msg):
    msg = dict(msg)
    if 'data' in msg and len(msg['data']) > 24:
        msg['data'] = msg['data'][:16] + '...(%d octets)' % (len(msg['data']) // 2)
    return msg


def run_codec(case, out):
    from tcpcl import messages
    from vlib import ref9174 as r, strat9174 as s9
    msg = _norm(s9.expand(case['msg']))
    out.label('codec:' + msg['t'])
    out.nontrivial = msg['t'] in ('XFER_SEGMENT', 'SESS_INIT') and bool(msg.get('ext'))
    wire = r.encode(msg)
    # independent encode -> repo decode
    try:
        pkt = messages.MessageHead(wire + b'\x04')   # a following KEEPALIVE so that empty bodies decode
        got = repo_to_ref(pkt)
        size = len(bytes(pkt))
    except Exception as err:
        out.fail('codec-decode-raises:%s' % type(err).__name__, 'repo cannot decode reference-encoded %s: %s' % (msg['t'], err))
        return
    if got != msg:
        out.fail('codec-decode-differs:%s' % msg['t'], 'repo decodes %s, reference encoded %s' % (_short(got), _short(msg)))
    if size != len(wire):
        out.fail('codec-consumed-length:%s' % msg['t'], 'repo consumed %d octets of a %d-octet message' % (size, len(wire)))
    # repo encode -> independent decode
    try:
        built = bytes(ref_to_repo(msg))
    except Exception as err:
        out.fail('codec-encode-raises:%s' % type(err).__name__, 'repo cannot encode %s: %s' % (_short(msg), err))
        return
    try:
        res = r.parse_message(built)
    except r.Invalid as err:
        out.fail('codec-encode-invalid', 'independent decoder rejects the repo encoding of %s: %s' % (msg['t'], err))
        return
    if res == r.NEED_MORE:
        out.fail('codec-encode-truncated', 'repo encoding of %s is incomplete for the independent decoder' % msg['t'])
        return
    back, used = res
    if used != len(built):
        out.fail('codec-encode-trailing', 'repo encoding of %s has %d trailing octets' % (msg['t'], len(built) - used))
    if _norm(back) != msg:
        out.fail('codec-encode-differs:%s' % msg['t'], 'independent decoder reads %s from the repo encoding of %s'
                 % (_short(_norm(back)), _short(msg)))


def acted_on(data, cuts, active, terminate_at=None):
    ''' Feed ``data`` cut at ``cuts`` to a fresh endpoint (which is told to terminate once ``terminate_at`` octets have
    been delivered, if given).  :return: (acted-on sequence, octets written, closed?, escapes) '''
    from vlib import tcpcl_world as tw
    import dbus
    world = tw.World(tw.make_config('dtn://real/'), scripted=True, real_is_passive=not active)
    end = world.real
    hdl = end.hdl
    log = []
    orig = hdl.recv_message

    def recv_message(pkt):
        try:
            item = repo_to_ref(pkt)
        except Exception as err:
            item = {'t': 'UNREADABLE', 'err': type(err).__name__}
        if item.get('t') == 'UNKNOWN':
            item = dict(item, size=len(bytes(pkt)))     # how many octets went with the unknown type code
        log.append(item)
        return orig(pkt)
    hdl.recv_message = recv_message
    for _ in range(8):
        if not end.ctx.iterate():
            break
    pos = 0
    for nxt in sorted(set(c for c in cuts if 0 < c < len(data))) + [len(data)]:
        if end.sock.closed:
            break
        world.peer_sock.send(data[pos:nxt])
        pos = nxt
        world.tx_pipe.deliver()
        for _ in range(200):
            if end.sock.closed or not end.ctx.iterate():
                break
        if terminate_at is not None and pos == terminate_at and not end.sock.closed:
            end.call('terminate', dbus.Byte(0))
            for _ in range(200):
                if end.sock.closed or not end.ctx.iterate():
                    break
    world.settle()
    return log, bytes(world.real_wire()), end.sock.closed, [(e.exc_type, e.frame) for e in world.escapes()]


def run_split_independence(case, out):
    ''' Metamorphic: the same octet stream under different cut sets.  Used for streams no reference can frame (an
    unknown message type code followed by more octets): whatever the endpoint makes of them, it must make the same of
    them however TCP delivered them. '''
    from vlib import ref9174 as r, strat9174 as s9
    head = r.encode({'t': 'CH', 'magic': r.MAGIC.hex(), 'version': 4, 'flags': 0}) + r.encode(_default_init())
    body = b''
    for msg in case['msgs']:
        body += bytes([msg['code']]) if msg['t'] == 'UNKNOWN-CODE' else r.encode(s9.expand(msg))
    data = head + body
    active = bool(case.get('active'))
    variants = [[len(head)], [6, len(head)], list(range(1, len(data))), [6, len(head)] + [c + len(head) for c in case.get('cuts', [])]]
    results = []
    for cuts in variants:
        log, wire, closed, escapes = acted_on(data, cuts, active, len(head) if case.get('own_terminate') else None)
        for exc_type, frame in escapes:
            out.fail('escape:%s@%s' % (exc_type, frame), 'exception escaped the receive callback under cuts %s' % cuts[:8])
        if case.get('own_terminate'):
            # what arrives behind the peer's SESS_TERM reaches a session that is over: whether such a message is still
            # looked at before the connection closes depends on how far the endpoint's own writing has got, which is
            # not a matter of framing; the comparison covers everything up to the SESS_TERM, the octets written and
            # whether the connection ends closed
            idx = next((i for i, m in enumerate(log) if m.get('t') == 'SESS_TERM'), None)
            if idx is not None:
                log = log[:idx + 1]
        results.append((cuts, log, wire, closed))
    base = results[0]
    for cuts, log, wire, closed in results[1:]:
        if log != base[1]:
            idx = next((i for i in range(min(len(log), len(base[1]))) if log[i] != base[1][i]), min(len(log), len(base[1])))
            out.fail('split-dependent-framing', 'the same %d-octet stream is acted on differently depending on the cuts: item %d is %s '
                     'with cuts %s and %s with cuts %s (%d vs %d items)'
                     % (len(data), idx, _short(log[idx]) if idx < len(log) else None, cuts[:6],
                        _short(base[1][idx]) if idx < len(base[1]) else None, base[0][:6], len(log), len(base[1])))
            break
        if wire != base[2] or closed != base[3]:
            out.fail('split-dependent-answers', 'the same stream draws different answers depending on the cuts (%d vs %d octets written, '
                     'closed %s vs %s)' % (len(wire), len(base[2]), closed, base[3]))
            break
    out.label('split-independence', 'active' if active else 'passive', 'own-terminate' if case.get('own_terminate') else 'no-terminate')
    out.nontrivial = len(case['msgs']) >= 2 and (case.get('own_terminate') or any(m['t'] == 'UNKNOWN-CODE' for m in case['msgs']))


def execute(case):
    out = Outcome()
    if case['kind'] == 'split':
        run_split_independence(case, out)
    elif case['kind'] == 'codec':
        run_codec(case, out)
    else:
        run_stream(case, out)
    return out
