''' C20 - BTP-U messages round-trip and segmented transfers reassemble. '''
import itertools
import struct

from hypothesis import strategies as st

from vlib import boot
from vlib.engine import Outcome

PROPERTY = 'C20'
RULE = ('(transfer) a real BTP-U agent segments a generated bundle (1..20000 octets, lengths around mtu-4 and mtu-18) with '
        'mtu_default from {None, 64, 65, 100, 300, 1500, 9000} or any value in 24..400 and transfer numbers across 2^8 / 2^16 / 2^32-1 through its '
        'real _send_transfer; every frame is parsed by an independent BTP-U parser (type, flags, 20-bit length, hint '
        'chain): declared lengths == actual lengths, frame <= MTU, MessageSet(frame) re-encodes to the same octets, segment '
        'payloads concatenated by index == bundle, the last is a Transfer End with the highest index.  The frames are then '
        'handed to the real _recv_msg of a second agent in a generated permutation (ALL permutations for transfers with <= '
        '5 segments), interleaved with a second transfer on another transfer number or another channel, one message per frame or '
        'two / three consecutive arrivals put into one frame (and, in a third of the cases, followed by a second transfer under the same number whose segments arrive 300 ms apart): exactly one item equal to the bundle is queued, and only when the last missing segment arrives.  '
        '(codec, both directions: decode a reference frame and re-encode it; build the same message set from objects and read it with the independent parser; the same hint may occur twice in a list) reference-encoded frames (bundle PDU, transfer segment/end with 0-3 hints of 0-255 octets, definite '
        'padding, several messages per frame, zero padding) must decode to the same messages and re-encode to the same '
        'octets.  Non-trivial = >= 3 segments in non-index order, or a codec frame with >= 2 messages; distinct by SHA-1.')
SHRINK_KEYS = ('arrival',)
SHRINK_KINDS = ('list',)
ASSUMPTIONS = [
    'bundles have >= 1 octet (scapy builds no payload layer from zero octets and a bundle is never empty)',
    'without an MTU a bundle beyond the 20-bit message length limit must still leave as well-formed messages (pinned cases around 2^20)',
    'between two segments less than the 1 s receive timeout passes on the virtual clock (gap_ms 0, 300 or 900); the whole transfer may take longer',
    '(public) vlib/simether.py models packet(7): every packet socket bound to an interface gets its own copy of a frame received for the '
    'station, the sending host shows a sent frame to its other packet sockets as outgoing, short frames are padded to the Ethernet minimum',
]
EXHAUSTIVE_PART = 'all arrival permutations of the segments of enumerated transfers with <= 5 segments'


def prepare():
    boot.btpu()


def budgets(tier):
    if tier == 'quick':
        return dict(shards=16, examples=40)
    return dict(shards=16, examples=6000, deadline_s=3000)


# --- independent BTP-U codec ----------------------------------------------------------------

from vlib.refbtpu import ref_encode, ref_parse  # noqa: E402,F401  (independent BTP-U codec)


def repo_to_ref(pkt):
    ''' MessageSet packet -> list of reference messages. '''
    out = []
    for msg in pkt.msgs:
        hints = []
        for hint in msg.hints:
            hints.append([int(hint.hint_type), bytes(hint.payload).hex() if hint.payload else ''])
        body = bytes(msg.payload) if msg.payload else b''
        out.append({'type': int(msg.msg_type), 'flags': int(msg.flags) if msg.flags is not None else 0, 'hints': hints,
                    'body': body.hex()})
    return out


# --- strategies ----------------------------------------------------------------------------------

@st.composite
def transfer_cases(draw):
    mtu = draw(st.one_of(st.sampled_from([None, 64, 65, 100, 300, 1500, 9000]), st.integers(24, 400)))
    if mtu is None:
        length = draw(st.one_of(st.sampled_from([1, 2, 255, 256, 65535, 65536]), st.integers(1, 20000)))
    else:
        length = draw(st.one_of(st.sampled_from([1, mtu - 5, mtu - 4, mtu - 3, mtu - 18, mtu - 17, mtu, mtu + 1, 3 * mtu, 5 * (mtu - 18), 5 * (mtu - 18) + 1]),
                                st.integers(1, min(20000, 40 * mtu))))
        length = max(1, length)
    xfer = draw(st.sampled_from([0, 1, 255, 256, 65535, 65536, 2 ** 32 - 1]))
    arrival = draw(st.lists(st.integers(0, 255), max_size=40))
    return {'kind': 'transfer', 'mtu': mtu, 'length': length, 'seed': draw(st.integers(0, 99)), 'xfer': xfer,
            'other': draw(st.sampled_from([None, 'number', 'channel'])), 'arrival': arrival,
            'gap_ms': draw(st.sampled_from([0, 0, 300, 900])),
            'group': draw(st.one_of(st.just([]), st.lists(st.integers(1, 3), max_size=8))),
            'again': draw(st.sampled_from([False, False, True]))}


@st.composite
def codec_cases(draw):
    msgs = []
    for _ in range(draw(st.integers(1, 3))):
        mtype = draw(st.sampled_from([1, 2, 3, 4]))
        hints = [[draw(st.integers(0, 127)), draw(st.binary(max_size=draw(st.sampled_from([0, 1, 4, 255])))).hex()]
                 for _ in range(draw(st.integers(0, 3)))]
        if hints and draw(st.integers(0, 2)) == 0:
            # the same hint twice in one list (type and value)
            hints.insert(draw(st.integers(0, len(hints) - 1)), list(hints[-1]))
        body = draw(st.binary(min_size=1, max_size=draw(st.sampled_from([1, 20, 300, 2000]))))
        if mtype in (3, 4):
            body = struct.pack('>II', draw(st.sampled_from([0, 255, 65536, 2 ** 32 - 1])), draw(st.integers(0, 1000))) + body
        msgs.append({'type': mtype, 'hints': hints, 'body': body.hex()})
    return {'kind': 'codec', 'msgs': msgs, 'zero_pad': draw(st.sampled_from([0, 0, 1, 7]))}


@st.composite
def public_cases(draw):
    ''' Two whole BTP-U agents on one simulated Ethernet segment (vlib/simether.py), driven only through their D-Bus
    methods: listen(), send_bundle_data(), recv_bundle_get_queue(), recv_bundle_pop_data(). '''
    mtu = draw(st.sampled_from([None, 64, 100, 300, 1200]))
    sends = []
    for _ in range(draw(st.integers(1, 4))):
        # who sends (0 = agent A, 1 = agent B), length, content seed
        sends.append([draw(st.sampled_from([0, 0, 1])), draw(st.sampled_from([1, 10, 40, 59, 60, 61, 120, 500, 2000])), draw(st.integers(0, 99))])
    return {'kind': 'public', 'mtu': mtu, 'sends': sends, 'arrival': draw(st.lists(st.integers(0, 30), max_size=20)),
            'pump_between': draw(st.booleans()), 'pop_file_bad': draw(st.sampled_from([False, False, True])),
            # an agent may call listen() only after its first own send (the sending socket exists by then)
            'listen_late': draw(st.sampled_from([[], [], [0], [1], [0, 1]]))}


def strategy(tier):
    return st.one_of(transfer_cases(), transfer_cases(), codec_cases(), public_cases())


def enumerate_cases(tier):
    combos = [(64, 100), (64, 150), (100, 330)] if tier == 'quick' else [(64, 100), (64, 150), (64, 200), (100, 330), (300, 1200)]
    for mtu, length in combos:
        for perm in itertools.permutations(range(5)):
            choices = []
            remaining = list(range(5))
            for pick in perm:
                choices.append(remaining.index(pick))
                remaining.remove(pick)
            yield {'kind': 'transfer', 'mtu': mtu, 'length': length, 'seed': 1, 'xfer': 7, 'other': None, 'arrival': choices}
            if choices == [0] * 5:
                yield {'kind': 'transfer', 'mtu': mtu, 'length': length, 'seed': 1, 'xfer': 7, 'other': None, 'arrival': choices, 'again': True}
            if (mtu, length) == combos[1]:
                # the same arrival orders with two or three messages per frame
                for group in ([2, 2, 2], [3, 3], [1, 3, 1]):
                    yield {'kind': 'transfer', 'mtu': mtu, 'length': length, 'seed': 1, 'xfer': 7, 'other': None, 'arrival': choices, 'group': group}


def pinned_cases():
    yield 'public-both-ways', {'kind': 'public', 'mtu': 100, 'sends': [[0, 40, 1], [1, 10, 2], [0, 500, 3], [1, 120, 4]],
                               'arrival': [1, 0, 2, 0], 'pump_between': True}
    yield 'three-segments-reversed', {'kind': 'transfer', 'mtu': 64, 'length': 120, 'seed': 1, 'xfer': 65536, 'other': 'number',
                                      'arrival': [2, 1, 0, 0, 0, 0]}
    for length in (2 ** 20 - 5, 2 ** 20 - 1, 2 ** 20, 2 ** 20 + 7):
        # no MTU configured: one message still cannot declare more than its 20-bit length field holds
        yield 'no-mtu-%d' % length, {'kind': 'transfer', 'mtu': None, 'length': length, 'seed': 1, 'xfer': 7, 'other': None, 'arrival': [1]}
    yield 'codec-repeated-hint', {'kind': 'codec', 'zero_pad': 0,
                                  'msgs': [{'type': 3, 'hints': [[1, 'aa'], [1, 'aa']], 'body': '0000000100000000aabb'}]}
    yield 'codec-hints', {'kind': 'codec', 'msgs': [{'type': 3, 'hints': [[0, '00000064'], [5, '']], 'body': '0000000100000000aabb'},
                                                    {'type': 2, 'hints': [], 'body': '9f00ff'}], 'zero_pad': 3}


# --- execution --------------------------------------------------------------------------------------

def make_agent(mtu):
    from vlib import simloop
    import btpu.agent
    import btpu.config
    import io
    import json
    doc = dict(node_id='dtn://btpu/')
    if mtu is not None:
        doc['mtu_default'] = int(mtu)
    cfg = btpu.config.Config()
    cfg.from_file(io.StringIO(json.dumps({'btpu': doc})))     # as a deployment loads it
    ctx = simloop.Context('btpu')
    with simloop.entered(ctx):
        agent = btpu.agent.Agent(cfg)
    return ctx, agent


def frames_of(agent, ctx, data, xfer):
    from io import BytesIO
    from vlib import simloop
    import btpu.agent
    item = btpu.agent.BundleItem(address='02-00-00-00-00-02', file=BytesIO(data), transfer_id=xfer, total_length=len(data))
    with simloop.entered(ctx):
        return [bytes(frame) for frame in agent._send_transfer(item)]


def run_transfer(case, out):
    from vlib import simloop, strat9174
    import dbus
    import btpu.agent
    import macaddress
    simloop.reset()
    dbus.RECORDER.reset()
    mtu = case['mtu']
    length = max(1, int(case['length']))
    data = strat9174.content(length, case['seed'])
    sctx, sender = make_agent(mtu)
    rctx, receiver = make_agent(mtu)
    try:
        frames = frames_of(sender, sctx, data, case['xfer'])
    except Exception as exc:
        out.fail('send-raises:%s' % type(exc).__name__, '_send_transfer raised %s: %s (length %d, mtu %s)' % (type(exc).__name__, exc, length, mtu))
        return
    where = 'bundle %d octets, mtu %s, transfer %d' % (length, mtu, case['xfer'])
    segs = []
    for frame in frames:
        if mtu is not None and len(frame) > mtu:
            out.fail('frame-exceeds-mtu', 'a %d-octet frame was produced (%s)' % (len(frame), where))
        try:
            msgs = ref_parse(frame)
        except ValueError as exc:
            out.fail('frame-malformed', 'independent parser rejects a frame: %s (%s)' % (exc, where))
            continue
        try:
            from btpu.messages import MessageSet
            again = bytes(MessageSet(frame))
            if again != frame:
                out.fail('frame-reencode-differs', 'MessageSet(frame) re-encodes differently (%s)' % where)
        except Exception as exc:
            out.fail('frame-undecodable:%s' % type(exc).__name__, 'the repo cannot decode its own frame: %s (%s)' % (exc, where))
        if len(msgs) != 1:
            out.fail('frame-message-count', 'a frame holds %d messages (%s)' % (len(msgs), where))
            continue
        segs.append(msgs[0])
    if not segs:
        return
    if len(segs) == 1 and segs[0]['type'] == 2:
        if bytes.fromhex(segs[0]['body']) != data:
            out.fail('bundle-pdu-differs', 'the bundle PDU does not carry the bundle (%s)' % where)
    else:
        rebuilt = b''
        for idx, msg in enumerate(segs):
            body = bytes.fromhex(msg['body'])
            if msg['type'] not in (3, 4) or len(body) < 8:
                out.fail('segment-malformed', 'segment %d has type %d and %d octets (%s)' % (idx, msg['type'], len(body), where))
                return
            xnum, sidx = struct.unpack('>II', body[:8])
            if xnum != case['xfer'] or sidx != idx:
                out.fail('segment-numbering', 'segment %d carries transfer %d index %d (%s)' % (idx, xnum, sidx, where))
            if (msg['type'] == 4) != (idx == len(segs) - 1):
                out.fail('transfer-end-position', 'segment %d of %d has type %d (%s)' % (idx, len(segs), msg['type'], where))
            rebuilt += body[8:]
        if rebuilt != data:
            out.fail('segments-differ', 'segment payloads concatenate to %d octets, bundle has %d (%s)' % (len(rebuilt), len(data), where))
    # --- receiver --------------------------------------------------------------------------
    chan = btpu.agent.EthernetChannel(local_if='eth0', peer_address=macaddress.EUI48('02-00-00-00-00-01'),
                                      local_address=macaddress.EUI48('02-00-00-00-00-02'))
    other_frames = []
    other_data = strat9174.content(max(1, length // 2 + 3), case['seed'] + 500)
    other_chan = chan
    if case.get('other'):
        oxfer = case['xfer'] if case['other'] == 'channel' else (case['xfer'] + 1) % 2 ** 32
        other_frames = frames_of(sender, sctx, other_data, oxfer)
        if case['other'] == 'channel':
            other_chan = btpu.agent.EthernetChannel(local_if='eth0', peer_address=macaddress.EUI48('02-00-00-00-00-07'),
                                                    local_address=macaddress.EUI48('02-00-00-00-00-02'))
    pending = [(0, i) for i in range(len(frames))] + [(1, i) for i in range(len(other_frames))]
    order = []
    choices = list(case.get('arrival', []))
    while pending:
        pick = choices.pop(0) % len(pending) if choices else 0
        order.append(pending.pop(pick))
    got = [set(), set()]
    need = [len(frames), len(other_frames)]
    wants = [data, other_data]
    # (only without a second interleaved transfer: otherwise the pause between two segments of one transfer would add up)
    gap_ms = int(case.get('gap_ms') or 0) if not case.get('other') else 0
    # several messages in one frame: consecutive arrivals on one channel are put into one frame (a message set), as a
    # sender with a larger MTU or a relay may do
    deliveries = []
    groups = list(case.get('group') or [])
    for which, idx in order:
        frame = frames[idx] if which == 0 else other_frames[idx]
        fchan = chan if which == 0 else other_chan
        size = groups[0] if groups else 1
        last = deliveries[-1] if deliveries else None
        if last is not None and last['chan'] is fchan and len(last['items']) < size and len(last['frame']) + len(frame) <= 9000:
            last['items'].append((which, idx))
            last['frame'] += frame
        else:
            if last is not None and groups:
                groups.pop(0)
            deliveries.append({'chan': fchan, 'items': [(which, idx)], 'frame': frame})
    if any(len(d['items']) > 1 for d in deliveries):
        out.label('several-messages-per-frame')
    for dlv in deliveries:
        if gap_ms:
            # the segments trickle in: less than the receive timeout (1 s, restarted by every segment according to its
            # documentation) lies between two of them, but the whole transfer may take longer than that
            simloop.advance_to(simloop.CLOCK.now_ms + gap_ms)
            for _ in range(50):
                if not rctx.iterate():
                    break
        before = len([e for e in dbus.RECORDER.events if e['kind'] == 'signal' and e['member'] == 'recv_bundle_finished' and e['obj'] is receiver])
        with simloop.entered(rctx):
            try:
                receiver._recv_msg(None, dlv['frame'], dlv['chan'])
            except Exception as exc:
                out.fail('recv-raises:%s' % type(exc).__name__, '_recv_msg raised %s: %s (%s)' % (type(exc).__name__, exc, where))
                return
        after_ev = [e for e in dbus.RECORDER.events if e['kind'] == 'signal' and e['member'] == 'recv_bundle_finished' and e['obj'] is receiver]
        completed = []
        for which, idx in dlv['items']:
            was = len(got[which]) == need[which]
            got[which].add(idx)
            if not was and len(got[which]) == need[which]:
                completed.append(which)
        new = len(after_ev) - before
        if new < len(completed):
            out.fail('not-queued-when-complete', 'the last missing segment of transfer(s) %s arrived (order %s, frame with messages %s) but %d bundles were queued (%s)'
                     % (completed, order[:12], dlv['items'], new, where))
        if new > len(completed):
            out.fail('queued-while-incomplete', '%d bundle(s) queued, transfers completed by this frame: %s (received %s of %s) (%s)'
                     % (new, completed, [len(g) for g in got], need, where))
        if new and new == len(completed):
            blobs = []
            for ev in after_ev[-new:]:
                item = receiver._rx_queue.get(int(ev['args'][0]))
                blobs.append(item.file.getvalue() if item is not None else None)
                if ev.get('error'):
                    out.fail('signal-does-not-marshal', 'recv_bundle_finished%r: %s' % (ev['args'], ev['error']))
            if sorted(blobs, key=repr) != sorted((wants[w] for w in completed), key=repr):
                out.fail('reassembled-bundle-differs', 'queued bundle(s) have %s octets, original(s) %s (%s, arrival %s)'
                         % ([None if b is None else len(b) for b in blobs], [len(wants[w]) for w in completed], where, order[:12]))
    if case.get('again') and not case.get('other') and len(frames) >= 2 and all(len(g) == need[0] for g in got[:1]):
        # the sender starts over (its transfer numbers begin again): another bundle under the same transfer number right
        # after the first one completed, its segments 300 ms apart - each well within the receive timeout, the whole of it
        # reaching past one second after the completion of the first
        data2 = strat9174.content(max(length, 5 * ((mtu or 64) - 18)), case['seed'] + 900)
        frames2 = frames_of(sender, sctx, data2, case['xfer'])
        out.label('same-number-again:%s' % ('1' if len(frames2) == 1 else '2+'))
        base_ev = len([e for e in dbus.RECORDER.events if e['kind'] == 'signal' and e['member'] == 'recv_bundle_finished' and e['obj'] is receiver])
        for idx2, frame in enumerate(frames2):
            simloop.advance_to(simloop.CLOCK.now_ms + 300)
            for _ in range(50):
                if not rctx.iterate():
                    break
            with simloop.entered(rctx):
                try:
                    receiver._recv_msg(None, frame, chan)
                except Exception as exc:
                    out.fail('recv-raises:%s' % type(exc).__name__, '_recv_msg raised %s: %s (%s, second transfer)' % (type(exc).__name__, exc, where))
                    return
        evs2 = [e for e in dbus.RECORDER.events if e['kind'] == 'signal' and e['member'] == 'recv_bundle_finished' and e['obj'] is receiver][base_ev:]
        if len(evs2) != 1:
            out.fail('not-queued-when-complete', 'a second transfer under the number of one completed %d ms earlier (its %d segments 300 ms apart) '
                     'was delivered completely and %d bundles were queued (%s)' % (300 * len(frames2), len(frames2), len(evs2), where))
        else:
            item = receiver._rx_queue.get(int(evs2[0]['args'][0]))
            if item is None or item.file.getvalue() != data2:
                out.fail('reassembled-bundle-differs', 'the second transfer under the same number was queued with other content (%s)' % where)
    # long after everything is complete: whatever timers are left must not do any harm
    simloop.advance_to(simloop.CLOCK.now_ms + 2500)
    for _ in range(200):
        if not rctx.iterate():
            break
    for esc in rctx.escapes:
        out.fail('escape:%s@%s' % (esc.exc_type, esc.frame), 'exception escaped a main-loop callback of the receiver: %s: %s'
                 % (esc.exc_type, esc.exc_msg[:100]))
    if gap_ms:
        out.label('gap:%d' % gap_ms)
    idx_order = [i for w, i in order if w == 0]
    out.nontrivial = len(frames) >= 3 and idx_order != sorted(idx_order)
    out.label('transfer', 'mtu:%s' % mtu, 'frames:%s' % ('1' if len(frames) == 1 else ('2' if len(frames) == 2 else '3+')),
              'other:%s' % case.get('other'))


def run_codec(case, out):
    from btpu.messages import MessageSet
    frame = b''.join(ref_encode(m) for m in case['msgs']) + b'\x00' * int(case.get('zero_pad', 0))
    want = [dict(m, flags=0x8 if m['hints'] else 0) for m in case['msgs']]
    try:
        pkt = MessageSet(frame)
        got = repo_to_ref(pkt)
    except Exception as exc:
        out.fail('codec-decode-raises:%s' % type(exc).__name__, 'the repo cannot decode a reference frame: %s' % exc)
        return
    if got != want:
        out.fail('codec-decode-differs', 'decoded %s, reference frame holds %s'
                 % ([(g['type'], g['flags'], len(g['hints']), len(g['body']) // 2) for g in got],
                    [(w['type'], w['flags'], len(w['hints']), len(w['body']) // 2) for w in want]))
    try:
        again = bytes(pkt)
    except Exception as exc:
        out.fail('codec-reencode-raises:%s' % type(exc).__name__, 're-encoding a decoded frame raises: %s' % exc)
        return
    if again != frame:
        out.fail('codec-reencode-differs', 'decode then re-encode changes the frame (%d -> %d octets)' % (len(frame), len(again)))
    # the other direction: build the message set from objects, as the agent does, and read it with the independent parser
    from scapy import packet
    from btpu import messages as bm
    classes = {1: bm.DefinitePadding, 2: bm.BundlePdu, 3: bm.TransferSeg, 4: bm.TransferEnd}
    objs = []
    for msg in case['msgs']:
        hints = [bm.HintHead(hint_type=ht) / packet.Raw(bytes.fromhex(hv)) if hv else bm.HintHead(hint_type=ht) for ht, hv in msg['hints']]
        body = bytes.fromhex(msg['body'])
        if msg['type'] in (3, 4):
            num, idx = struct.unpack('>II', body[:8])
            pay = classes[msg['type']](xfer_num=num, seg_idx=idx) / packet.Raw(body[8:])
        else:
            pay = classes[msg['type']](body)
        objs.append(bm.MessageHead(msg_type=msg['type'], hints=hints) / pay)
    try:
        built = bytes(bm.MessageSet(msgs=objs))
    except Exception as exc:
        out.fail('codec-build-raises:%s' % type(exc).__name__, 'building a message set from objects raises: %s' % exc)
        return
    try:
        back = ref_parse(built)
    except ValueError as exc:
        out.fail('codec-build-malformed', 'the independent parser rejects a message set built from objects: %s' % exc)
        return
    if back != want:
        out.fail('codec-build-differs', 'a message set built from objects reads as %s, it was built from %s'
                 % ([(g['type'], g['flags'], [h[0] for h in g['hints']], len(g['body']) // 2) for g in back],
                    [(w['type'], w['flags'], [h[0] for h in w['hints']], len(w['body']) // 2) for w in want]))
    if any(msg['hints'].count(h) > 1 for msg in case['msgs'] for h in msg['hints']):
        out.label('repeated-hint')
    out.nontrivial = len(case['msgs']) >= 2
    out.label('codec', 'msgs:%d' % len(case['msgs']))
    for msg in case['msgs']:
        out.label('type:%d' % msg['type'], 'hints:%d' % len(msg['hints']))


def run_public(case, out):
    from vlib import simloop, simether, strat9174, tcpcl_world as tw
    import dbus
    import btpu.config
    simloop.reset()
    dbus.RECORDER.reset()
    simether.NET.reset()
    agent_mod = simether.install()
    macs = [bytes.fromhex('020000000001'), bytes.fromhex('020000000002')]
    agents = []
    for idx in range(2):
        ctx = simloop.Context('btpu-%d' % idx)
        simether.NET.add_host(ctx, 'host%d' % idx, {'eth0': macs[idx]})
        import io
        import json
        doc = dict(node_id='dtn://b%d/' % idx)
        if case['mtu'] is not None:
            doc['mtu_default'] = int(case['mtu'])
        cfg = btpu.config.Config()
        cfg.from_file(io.StringIO(json.dumps({'btpu': doc})))
        with simloop.entered(ctx):
            agent = agent_mod.Agent(cfg)
        agents.append((ctx, agent))
    listening = set()

    def listen(idx):
        if idx in listening:
            return
        listening.add(idx)
        res = tw.dbuscall(agents[idx][0], agents[idx][1], 'listen', 'eth0', dbus.Dictionary({}, signature='sv'))
        if hasattr(res, 'exc'):
            out.fail('listen-raises:%s' % res.name, 'listen("eth0") failed: %s' % res.exc)
    late = set(case.get('listen_late') or [])
    for idx in range(2):
        if idx not in late or not any(s[0] == idx for s in case['sends']):
            listen(idx)

    def pump():
        choices = list(case.get('arrival', []))
        for _ in range(10000):
            moved = False
            for ctx, _agent in agents:
                while ctx.iterate():
                    moved = True
            if simether.NET.inflight:
                pick = choices.pop(0) % len(simether.NET.inflight) if choices else 0
                simether.NET.deliver(simether.NET.inflight.pop(pick))
                moved = True
            if not moved:
                return

    expected = {0: [], 1: []}      # receiver index -> bundles it must end up with
    for who, length, seed in case['sends']:
        data = strat9174.content(length, seed * 7 + len(expected[0]) + len(expected[1]))
        ctx, agent = agents[who]
        params = dbus.Dictionary({'address': ':'.join('%02x' % b for b in macs[1 - who]), 'local_if': 'eth0'}, signature='sv')
        res = tw.dbuscall(ctx, agent, 'send_bundle_data', dbus.ByteArray(data), params)
        if hasattr(res, 'exc'):
            out.fail('send-raises:%s' % res.name, 'send_bundle_data(%d octets) failed: %s' % (length, res.exc))
            continue
        for ctx_x, _a in agents:
            while ctx_x.iterate():      # the frames leave before anything else happens (they are in flight then)
                pass
        listen(who)
        if (1 - who) in listening:
            expected[1 - who].append(data)
        else:
            # nobody listens there yet: the frames are lost on the segment, which is not the agent's doing
            simether.NET.inflight[:] = [it for it in simether.NET.inflight if it['src_host'] != 'host%d' % who]
            out.label('public:sent-to-deaf-peer')
        if case.get('pump_between'):
            pump()
    pump()
    for idx, (ctx, agent) in enumerate(agents):
        for esc in ctx.escapes:
            out.fail('escape:%s@%s' % (esc.exc_type, esc.frame), 'exception escaped a main-loop callback of agent %d: %s: %s'
                     % (idx, esc.exc_type, esc.exc_msg[:120]))
        fin = [e for e in dbus.RECORDER.events if e['kind'] == 'signal' and e['obj'] is agent and e['member'] == 'recv_bundle_finished']
        queue = tw.dbuscall(ctx, agent, 'recv_bundle_get_queue')
        got = []
        for bid in list(queue) if not hasattr(queue, 'exc') else []:
            if case.get('pop_file_bad'):
                # a pop into a file that cannot be created fails, and must leave the bundle where it is
                res = tw.dbuscall(ctx, agent, 'recv_bundle_pop_file', str(bid), '/nonexistent-verif-directory/bundle.bin')
                if not hasattr(res, 'exc'):
                    out.fail('public:pop-to-unwritable-file-succeeds', 'recv_bundle_pop_file into a missing directory did not fail')
            res = tw.dbuscall(ctx, agent, 'recv_bundle_pop_data', str(bid))
            got.append(None if hasattr(res, 'exc') else bytes(res))
        want = expected[idx]
        where = 'agent %d, mtu %s, sends %s, %d finished signals' % (idx, case['mtu'], case['sends'], len(fin))
        if sorted(got, key=repr) != sorted(want, key=repr):
            extra = len(got) - len(want)
            kind = 'queued-more-than-once' if extra > 0 and all(g in want for g in got) else \
                ('bundle-not-queued' if extra < 0 and all(g in want for g in got) else 'queued-data-differs')
            out.fail('public:' + kind, 'every frame was delivered once: the receiver queued %d bundle(s), %d were sent to it (%s)'
                     % (len(got), len(want), where))
        if len(fin) != len(got):
            out.fail('public:finished-signals', '%d recv_bundle_finished signals for %d queued bundles (%s)' % (len(fin), len(got), where))
    for item in simether.NET.sent_log:
        if case['mtu'] is not None and item['unpadded'] - 14 > case['mtu']:
            out.fail('frame-exceeds-mtu', 'a frame with %d octets of payload was sent, MTU %d' % (item['unpadded'] - 14, case['mtu']))
    for ev in dbus.RECORDER.events:
        if ev.get('error') and ev['kind'] in ('signal', 'return'):
            out.fail('does-not-marshal:%s' % ev['member'], '%s %s does not fit %r: %s' % (ev['kind'], ev['member'], ev.get('signature'), ev['error']))
    both = len(set(s[0] for s in case['sends'])) == 2
    out.nontrivial = any(s[1] > 60 for s in case['sends'])
    out.label('public', 'public:both-directions' if both else 'public:one-direction')
    out.count('public-frames', len(simether.NET.sent_log))


def execute(case):
    out = Outcome()
    if case['kind'] == 'public':
        run_public(case, out)
        return out
    if case['kind'] == 'codec':
        run_codec(case, out)
    else:
        run_transfer(case, out)
    return out
