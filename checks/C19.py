''' C19 - Status reports are sent exactly when requested and say what happened. '''
import itertools

from hypothesis import strategies as st

from vlib import boot
from vlib.engine import Outcome

PROPERTY = 'C19'
RULE = ('A real BP agent processes one received bundle (independent RFC 9171 encoder) per case in a history of 1-3 '
        'bundles.  Enumerated completely: every subset of the five report flags (reception, forwarding, delivery, '
        'deletion, status-time) x report-to {dtn:none, dtn node, ipn node} x outcome {deliver, forward, forward with '
        'fragmentation, delete route, no route, forward without transmit route, security failure, forward whose '
        'convergence layer raises at hand-over, the same with a bundle that has to be fragmented, a fragmented forward whose '
        'convergence layer takes the first fragment and raises from the second on, a fragment that cannot be used} = 1056 cells; '
        'Hypothesis adds random bundle content (EIDs, timestamps on CBOR boundaries, CRC types, extension blocks, '
        'payload sizes) around the same cells.  Oracle on the octets handed to the convergence layer, parsed '
        'independently: a report appears only if report-to != dtn:none and a requested action occurred (occurrence '
        'taken from the observed outcome: application invoked, forwarded octets seen, ...), and does appear for the '
        'deliver/forward/delete outcomes; destination == report-to, administrative flag, subject source/timestamp == the '
        'bundle, union of asserted statuses == requested AND occurred, status time present <=> requested, CRCs valid, '
        'the report requests no reports; a forwarded bundle (whole or as fragments) is never reported deleted.  '
        'Non-trivial = a report was emitted, or withheld although a flag was set; distinct by SHA-1 of the case.')
SHRINK_KEYS = ('history',)
SHRINK_KINDS = ('list',)
ASSUMPTIONS = [
    'bundles that are themselves administrative records are not generated (RFC 9171 forbids report requests on them)',
    'for a bundle that matches no route the agent records nothing but "received"; only the "only if" direction is judged there',
]
EXHAUSTIVE_PART = '2^5 report-flag subsets x 3 report-to values x 11 outcomes = 1056 cells'

NODE = 'dtn://me/'
OUTCOMES = ['deliver', 'forward', 'forward-frag', 'delete', 'noroute', 'fwd-no-tx', 'sec-fail', 'fwd-cl-fails', 'fwd-frag-cl-fails',
            'frag-unusable', 'fwd-frag-cl-fails-late']
FRAG_OUTCOMES = ('forward-frag', 'fwd-frag-cl-fails', 'fwd-frag-cl-fails-late')
RPT_TO = [['dtn', 'none'], ['dtn', '//reports/here'], ['ipn', 77, 2]]


def prepare():
    boot.bp()


def budgets(tier):
    if tier == 'quick':
        return dict(shards=16, examples=40)
    return dict(shards=16, examples=7500, deadline_s=3000)


def flag_bits(mask):
    from vlib import ref9171 as r
    bits = [r.FLAG_RPT_RECEPTION, r.FLAG_RPT_FORWARD, r.FLAG_RPT_DELIVERY, r.FLAG_RPT_DELETION, r.FLAG_STATUS_TIME]
    return sum(b for i, b in enumerate(bits) if mask >> i & 1)


@st.composite
def items(draw):
    from vlib import strat
    return {'outcome': draw(st.sampled_from(OUTCOMES)), 'mask': draw(st.integers(0, 31)),
            'rpt': draw(st.integers(0, 2)),
            'src': draw(strat.eids(allow_none=False)), 'ts': [draw(strat.uints()), draw(strat.uints())],
            'pcrc': draw(st.sampled_from([0, 1, 2])), 'ycrc': draw(st.sampled_from([0, 1, 2])),
            'plen': draw(st.sampled_from([0, 1, 24, 300, 2000])),
            'ext': draw(st.lists(st.sampled_from(['hop', 'unknown', 'unknown-repl', 'age']), max_size=2)),
            'other_flags': draw(strat.flag_sets(strat.OTHER_FLAGS))}


def stack_cases():
    ''' Whole nodes (vlib/stack_world.py): n2 forwards between n1 and n3 and knows the way to n1 only from the route its
    TCPCL adaptor adds when n1 has connected ("reverse route", which holds no address to connect to).  Sessions are cut
    in between, so forwards fail and succeed at different times; the reports travel to the originators. '''
    send = st.tuples(st.just('send'), st.sampled_from([1, 3, 3]), st.integers(0, 15), st.booleans()).map(list)
    cut = st.tuples(st.just('cut'), st.sampled_from([1, 2, 3])).map(list)
    # sessions told to end while bundles with a forwarding report request are still on their way towards them
    burst = st.tuples(st.lists(st.tuples(st.just('send'), st.sampled_from([1, 3]), st.sampled_from([2, 6, 10, 15]), st.just(False)).map(list),
                               min_size=1, max_size=3),
                      st.lists(cut, min_size=1, max_size=3)).map(lambda t: t[0] + t[1])
    flat = st.lists(st.one_of(send.map(lambda x: [x]), send.map(lambda x: [x]), cut.map(lambda x: [x]), burst), min_size=2, max_size=6)
    # hop: the convergence layer of both hops ('tcpcl': n2 knows n1 only through the reverse route); over UDPCL / BTP-U the
    # datagram network may be impaired (netfault, vlib/stack_world.py _release): a bundle that arrives twice is processed
    # once, so every node originates at most one report per subject and set of assertions
    return st.fixed_dictionaries({'kind': st.just('stack'), 'ops': flat.map(lambda groups: [op for grp in groups for op in grp][:10]),
                                  'hop': st.sampled_from(['tcpcl', 'tcpcl', 'udpcl', 'btpu']),
                                  'netfault': st.sampled_from([None, 'dup', 'dup-late', 'reverse-dup', 'rotate'])})


def strategy(tier):
    return st.one_of(single_cases(), single_cases(), single_cases(), stack_cases())


def single_cases():
    # rpt_mtu: MTU of the routes that carry the status reports themselves (None: unlimited; 90/110: a report of about
    # 120 octets leaves as fragments)
    return st.fixed_dictionaries({'history': st.lists(items(), min_size=1, max_size=3),
                                  'rpt_mtu': st.sampled_from([None, None, 90, 110])})


def enumerate_cases(tier):
    for outcome, mask, rpt in itertools.product(OUTCOMES, range(32), range(3)):
        yield {'history': [{'outcome': outcome, 'mask': mask, 'rpt': rpt, 'src': ['dtn', '//src/'], 'ts': [1000, mask],
                            'pcrc': 1, 'ycrc': 2, 'plen': 600 if outcome in FRAG_OUTCOMES else 20, 'ext': [], 'other_flags': 0}]}


def pinned_cases():
    for hop, fault in (('udpcl', 'dup'), ('udpcl', 'dup-late'), ('btpu', 'dup'), ('btpu', 'reverse-dup')):
        yield 'stack-netfault-%s-%s' % (hop, fault), {'kind': 'stack', 'hop': hop, 'netfault': fault,
                                                      'ops': [['send', 1, 15, True], ['send', 3, 7, False], ['send', 1, 3, True], ['send', 3, 15, True]]}
    yield 'stack-reverse-route', {'kind': 'stack', 'ops': [['send', 1, 15, True], ['cut', 1], ['send', 3, 15, True], ['send', 1, 15, True]]}
    yield 'stack-forward-onto-ending-session', {'kind': 'stack', 'ops': [['send', 1, 11, True], ['send', 3, 6, False], ['send', 1, 6, False],
                                                                          ['cut', 2], ['cut', 2], ['cut', 1]]}
    yield 'fragmented-report', {'rpt_mtu': 100, 'history': [{'outcome': 'forward', 'mask': 31, 'rpt': 1, 'src': ['dtn', '//src/'],
                                                             'ts': [1000, 1], 'pcrc': 1, 'ycrc': 2, 'plen': 20, 'ext': [], 'other_flags': 0}]}
    yield 'forward-frag-all-flags', {'history': [{'outcome': 'forward-frag', 'mask': 31, 'rpt': 1, 'src': ['dtn', '//src/'],
                                                  'ts': [1000, 1], 'pcrc': 2, 'ycrc': 2, 'plen': 900, 'ext': ['hop'], 'other_flags': 0}]}


def build(item, index):
    from vlib import ref9171 as r, strat9174
    outcome = item['outcome']
    dest = {'deliver': ['dtn', '//me/svc'], 'forward': ['dtn', '//fwd/x'], 'forward-frag': ['dtn', '//fwd/x'],
            'delete': ['dtn', '//del/x'], 'noroute': ['dtn', '//zzz/q'], 'fwd-no-tx': ['dtn', '//lost/x'],
            'fwd-cl-fails': ['dtn', '//fwd/x'], 'fwd-frag-cl-fails': ['dtn', '//fwd/x'], 'fwd-frag-cl-fails-late': ['dtn', '//fwd/x'],
            # a lone fragment for a local endpoint that the reassembly step cannot use (it declares 2^63 octets in all):
            # it is received, and nothing else happens to it
            'frag-unusable': ['dtn', '//me/svc'],
            'sec-fail': ['dtn', '//me/svc']}[outcome]
    flags = flag_bits(item['mask']) | int(item.get('other_flags', 0))
    if outcome in FRAG_OUTCOMES:
        flags &= ~r.FLAG_NO_FRAGMENT
    src = item['src']
    if r.eid_text(src) == NODE:
        src = ['dtn', '//src/']
    blocks = []
    num = 2
    for kind in item.get('ext', []):
        if kind == 'hop':
            blocks.append(dict(type=10, num=num, flags=0, crc_type=1, data=r.btsd_hop_count(30, 1)))
        elif kind == 'age':
            blocks.append(dict(type=7, num=num, flags=0, crc_type=0, data=r.btsd_age(10)))
        elif kind == 'unknown-repl':
            blocks.append(dict(type=192, num=num, flags=1, crc_type=2, data='c0ffee'))
        else:
            blocks.append(dict(type=193, num=num, flags=0, crc_type=0, data='0102'))
        num += 1
    if outcome == 'sec-fail':
        # a Block Integrity Block of an unknown security context targeting the payload
        from vlib import cborpull as cb
        asb = cb.enc([1]) + cb.enc(99) + cb.enc(0) + cb.enc([1, '//src/']) + cb.enc([[[1, b'x']]])
        blocks.append(dict(type=11, num=num, flags=0, crc_type=0, data=asb.hex()))
    plen = int(item.get('plen', 20))
    blocks.append(dict(type=1, num=1, flags=0, crc_type=item['ycrc'], data=strat9174.content(plen, index).hex()))
    ts = [int(item['ts'][0]), (int(item['ts'][1]) + index) % 2 ** 64]
    frag = None
    if outcome == 'frag-unusable':
        flags |= r.FLAG_FRAGMENT
        flags &= ~r.FLAG_NO_FRAGMENT
        frag = [0, 2 ** 63]
    pri = dict(version=7, flags=flags, crc_type=item['pcrc'], dest=dest, src=src, rpt=RPT_TO[item['rpt'] % 3], ts=ts,
               lifetime=3600000, frag=frag)
    return {'primary': pri, 'blocks': blocks}


def execute_stack(case):
    from vlib import stack_world as sw, bpconv, ref9171 as r, tcpcl_world as tw
    import dbus
    out = Outcome()
    hop = case.get('hop') or 'tcpcl'
    netfault = case.get('netfault') if hop != 'tcpcl' else None
    world = sw.StackWorld([
        dict(routes=[('^dtn://n[23]/', 2, hop)], rx_routes=[('^dtn://n1/', 'deliver')]),
        dict(routes=([('^dtn://n1/', 1, hop)] if hop != 'tcpcl' else []) + [('^dtn://n3/', 3, hop)],
             rx_routes=[('^dtn://n2/', 'deliver'), ('^dtn://n[13]/', 'forward')]),
        dict(routes=[('^dtn://n[12]/', 2, hop)], rx_routes=[('^dtn://n3/', 'deliver')]),
    ], netfault=netfault)
    out.label('stack-hop:%s' % hop)
    if netfault:
        out.label('stack-netfault:%s' % netfault)
    try:
        seq = 0
        subjects = {}
        for op in case['ops']:
            if op[0] == 'send':
                _o, origin, mask, pump = op
                dest = 3 if origin == 1 else 1
                seq += 1
                flags = 0
                for bit, flag in enumerate((r.FLAG_RPT_RECEPTION, r.FLAG_RPT_FORWARD, r.FLAG_RPT_DELIVERY, r.FLAG_RPT_DELETION)):
                    if mask >> bit & 1:
                        flags |= flag
                pri = dict(version=7, flags=flags, crc_type=1, dest=['dtn', '//n%d/svc' % dest], src=['dtn', '//n%d/app' % origin],
                           rpt=['dtn', '//n%d/' % origin], ts=[1000, seq], lifetime=3600000, frag=None)
                bundle = {'primary': pri, 'blocks': [dict(type=1, num=1, flags=0, crc_type=2, data=(b'rep-%d' % seq).hex())]}
                world.hosts[origin].originate(bpconv.to_repo(bundle))
                subjects[(('dtn', '//n%d/app' % origin), 1000, seq)] = flags
                if pump:
                    world.pump()
            elif op[0] == 'cut':
                host = world.hosts[op[1]]
                for hdl in host.contacts():
                    if hdl.get_session_state() == 'established':
                        tw.dbuscall(host.tctx, hdl, 'terminate', dbus.Byte(0))
                world.pump()
        world.pump()
        world.advance(1000)
        carried = {}        # (subject identity) -> set of nodes that transmitted it onward
        reports = []
        for xfer in world.transfers() + world.udp_bundles() + world.btpu_bundles():
            if not xfer['complete']:
                continue
            try:
                dec = r.decode(xfer['data'])
            except Exception as err:
                out.fail('wire-undecodable', 'a transfer does not decode as a bundle: %s' % err)
                continue
            pri = dec['primary']
            if pri['flags'] & r.FLAG_ADMIN:
                try:
                    body = r.parse_status_report(r.payload_block(dec)['data'])
                except r.RefError:
                    continue
                reports.append((r.eid_text(pri['src']), xfer['src'], body, pri))
            else:
                carried.setdefault((tuple(pri['src']), pri['ts'][0], pri['ts'][1]), set()).add(xfer['src'])
        seen_reports = set()
        report_idents = {}
        for reporter, _hop, body, pri in reports:
            key = (reporter, tuple(body['src']), tuple(body['ts']), tuple(flag for flag, _t in body['status']))
            report_idents.setdefault(key, set()).add((tuple(pri['src']), pri['ts'][0], pri['ts'][1]))
        for key, idents in sorted(report_idents.items(), key=repr):
            if len(idents) > 1:
                # (the same report bundle transmitted again, on a later session or by the impaired network, has one identity)
                out.fail('report-repeated', '%s originated %d status reports asserting %s about bundle %s: every arrival after the first '
                         'is a repeat that is processed no further (hop %s, netfault %s, ops %s)'
                         % (key[0], len(idents), key[3], key[1:3], hop, netfault, case['ops']))
        for reporter, _hop, body, pri in reports:
            key = (reporter, tuple(body['src']), tuple(body['ts']), tuple(flag for flag, _t in body['status']))
            if key in seen_reports:
                continue
            seen_reports.add(key)
            out.count('stack-reports')
            ident = (tuple(body['src']), body['ts'][0], body['ts'][1])
            if ident not in subjects:
                out.fail('report-subject', 'a status report names a subject %s that nobody sent' % (ident,))
                continue
            if pri['flags'] & (r.FLAG_RPT_RECEPTION | r.FLAG_RPT_FORWARD | r.FLAG_RPT_DELIVERY | r.FLAG_RPT_DELETION):
                out.fail('report-requests-reports', 'a status report requests status reports itself')
            node_index = int(reporter[len('dtn://n')]) if reporter.startswith('dtn://n') else None
            names = ['received', 'forwarded', 'delivered', 'deleted']
            asserted = set(n for n, (flag, _t) in zip(names, body['status']) if flag)
            did_forward = node_index in carried.get(ident, set())
            if 'deleted' in asserted and did_forward:
                out.fail('forwarded-reported-deleted', 'n%s reported bundle %s as deleted (reason %d) and transmitted it to its next hop all '
                         'the same (ops %s)' % (node_index, ident, body['reason'], case['ops']))
            if 'forwarded' in asserted and not did_forward:
                out.fail('report-asserts-did-not-occur:forwarded', 'n%s reported bundle %s as forwarded, it never left that node (ops %s)'
                         % (node_index, ident, case['ops']))
            requested = set(n for n, bit in zip(names, (r.FLAG_RPT_RECEPTION, r.FLAG_RPT_FORWARD, r.FLAG_RPT_DELIVERY, r.FLAG_RPT_DELETION))
                            if subjects[ident] & bit)
            if asserted - requested:
                out.fail('report-asserts-not-requested:%s' % ','.join(sorted(asserted - requested)),
                         'n%s asserts %s for bundle %s which requested %s' % (node_index, sorted(asserted - requested), ident, sorted(requested)))
        for esc in world.escapes():
            out.count('stack-escape:%s@%s' % (esc.exc_type, esc.frame))
        out.label('stack')
        out.nontrivial = bool(reports) and (any(op[0] == 'cut' for op in case['ops']) or world.net_duplicated > 0)
        if world.net_duplicated:
            out.label('stack:datagrams-duplicated')
    finally:
        world.close()
    return out


def execute(case):
    if case.get('kind') == 'stack':
        return execute_stack(case)
    from vlib import bp_world as bw, ref9171 as r
    out = Outcome()
    bw.reset()
    node = bw.Node(NODE, rx_routes=[('^dtn://me/', 'deliver'), ('^dtn://fwd/', 'forward'), ('^dtn://lost/', 'forward'),
                                    ('^dtn://del/', 'delete')],
                   tx_routes=[('^dtn://fwd/', 'dtn://next/', None), ('^dtn://reports/', 'dtn://rp/', None),
                              ('^ipn:', 'dtn://rp/', None)])
    for index in range(1, len(node.config.tx_route_table)):
        node.set_mtu(index, case.get('rpt_mtu'))
    if case.get('rpt_mtu'):
        out.label('report-route-mtu')
    seen = set()
    for index, item in enumerate(case['history']):
        one(node, item, index, out, seen)
    for esc in node.escapes():
        out.fail('escape:%s@%s' % (esc.exc_type, esc.frame), 'exception escaped a main-loop callback: %s: %s' % (esc.exc_type, esc.exc_msg[:120]))
    return out


def _join_own_fragments(decoded, out):
    ''' Bundles the node originated (its reports) may have left as fragments over a route with a small MTU: put each
    back together (payload ranges must tile, every fragment must carry the same flags apart from nothing) so that it
    can be judged as the report it is.  Other bundles pass through unchanged. '''
    from vlib import ref9171 as r
    groups = {}
    rest = []
    for d in decoded:
        pri = d['primary']
        if pri['frag'] is not None and r.eid_text(pri['src']) == NODE:
            groups.setdefault((tuple(pri['ts']),), []).append(d)
        else:
            rest.append(d)
    for key, frags in groups.items():
        frags.sort(key=lambda d: d['primary']['frag'][0])
        total = frags[0]['primary']['frag'][1]
        data = b''
        ok = True
        for d in frags:
            if d['primary']['frag'][0] != len(data) or d['primary']['frag'][1] != total:
                ok = False
            data += bytes.fromhex(r.payload_block(d)['data'])
            if (d['primary']['flags'] ^ frags[0]['primary']['flags']):
                out.fail('report-fragments-differ-in-flags', 'fragments of one report carry different bundle flags')
        if not ok or len(data) != total:
            out.fail('report-fragments-do-not-tile', 'a report left as %d fragments that do not tile its %d octets' % (len(frags), total))
            continue
        whole = {'primary': dict(frags[0]['primary'], frag=None, flags=frags[0]['primary']['flags'] & ~r.FLAG_FRAGMENT),
                 'blocks': [dict(b) for b in frags[0]['blocks']], '_fragments': len(frags), '_crc_ok': all(r.all_crc_ok(d) for d in frags)}
        whole['blocks'][-1] = dict(whole['blocks'][-1], data=data.hex())
        rest.append(whole)
        out.label('report-sent-as-fragments')
    return rest


def one(node, item, index, out, seen):
    from vlib import ref9171 as r
    bundle = build(item, index)
    outcome = item['outcome']
    wire = r.encode(bundle)
    ident = (tuple(bundle['primary']['src']), tuple(bundle['primary']['ts']))
    if bundle['primary']['frag'] is not None:
        # (a fragment is another bundle than the whole one of the same source and creation timestamp)
        ident += (bundle['primary']['frag'][0], len(bundle['blocks'][-1]['data']) // 2)
    if ident in seen:
        # two items of a history happen to have the same identity: the second is a repeat, which the agent ignores
        # (C10); nothing about reports is to be judged for it
        n_before = len(node.sent())
        node.receive(wire)
        if len(node.sent()) != n_before:
            out.fail('repeat-causes-output', 'a repeat of an already processed bundle made the agent transmit %d bundle(s)'
                     % (len(node.sent()) - n_before))
        out.label('repeat-in-history')
        return
    seen.add(ident)
    if outcome in FRAG_OUTCOMES:
        empty = dict(bundle, blocks=bundle['blocks'][:-1] + [dict(bundle['blocks'][-1], data='')])
        node.set_mtu(0, len(r.encode(empty)) + 80)
    else:
        node.set_mtu(0, None)
    # the convergence layer towards the forwarding next hop fails at hand-over (its service went away); reports travel
    # over another next hop and still get out
    node.cl.fail_next = {'dtn://next/'} if outcome in ('fwd-cl-fails', 'fwd-frag-cl-fails') else set()
    # ... or takes the first fragment and fails from the second on: part of the bundle has left the node
    node.cl.fail_after = {'dtn://next/': len([1 for cfg, _d, _t in node.cl.sent if (cfg or {}).get('next') == 'dtn://next/']) + 1} \
        if outcome == 'fwd-frag-cl-fails-late' else {}
    n_sent, n_rec = len(node.sent()), len(node.records())
    err = node.receive(wire)
    if err is not None:
        out.fail('receive-raises:%s' % type(err).__name__, 'receiving a well-formed bundle raised %s: %s' % (type(err).__name__, err))
        return
    new = []
    for data in node.sent()[n_sent:]:
        try:
            new.append(r.decode(data))
        except r.RefError as exc:
            out.fail('emitted-not-wellformed', 'octets handed to the CL (%s) are not an RFC 9171 bundle: %s' % (outcome, exc))
    new = _join_own_fragments(new, out)
    # what this node originates in these scenarios are its status reports: each must be flagged as an administrative
    # record (as a whole and, when it left in fragments, on every fragment)
    for d in new:
        if r.eid_text(d['primary']['src']) == NODE and not d['primary']['flags'] & r.FLAG_ADMIN:
            out.fail('report-not-flagged-admin', 'a bundle originated by the node (source %s, to %s, %s) is not flagged as an '
                     'administrative record (flags 0x%x)' % (NODE, r.eid_text(d['primary']['dest']),
                                                           'sent as %d fragments' % d['_fragments'] if d.get('_fragments') else 'sent whole',
                                                           d['primary']['flags']))
            d['primary']['flags'] |= r.FLAG_ADMIN     # judge the rest of it as the report it is
    reports = [d for d in new if d['primary']['flags'] & r.FLAG_ADMIN]
    data_bundles = [d for d in new if not d['primary']['flags'] & r.FLAG_ADMIN]
    delivered = len(node.records()) > n_rec
    forwarded = [d for d in data_bundles if d['primary']['src'] == bundle['primary']['src'] and d['primary']['ts'] == bundle['primary']['ts']]
    # what occurred, from what was observed
    occurred = {'received'}
    if delivered:
        occurred.add('delivered')
    if forwarded:
        occurred.add('forwarded')
    if outcome in ('delete', 'fwd-no-tx', 'sec-fail', 'fwd-cl-fails', 'fwd-frag-cl-fails', 'fwd-frag-cl-fails-late') and not delivered and not forwarded:
        occurred.add('deleted')
    want_kind = {'deliver': 'delivered', 'forward': 'forwarded', 'forward-frag': 'forwarded'}.get(outcome)
    if want_kind and want_kind not in occurred:
        out.fail('outcome-missing:%s' % outcome, 'bundle routed %s but %s was not observed (%d data bundles to the CL)'
                 % (outcome, want_kind, len(data_bundles)))
    flags = bundle['primary']['flags']
    requested = set()
    for name, bit in (('received', r.FLAG_RPT_RECEPTION), ('forwarded', r.FLAG_RPT_FORWARD),
                      ('delivered', r.FLAG_RPT_DELIVERY), ('deleted', r.FLAG_RPT_DELETION)):
        if flags & bit:
            requested.add(name)
    want_time = bool(flags & r.FLAG_STATUS_TIME)
    rpt_to = bundle['primary']['rpt']
    should = set() if rpt_to == ['dtn', 'none'] else (requested & occurred)
    asserted_all = set()
    where = 'outcome %s, flags requested %s time=%s, report-to %s' % (outcome, sorted(requested), want_time, r.eid_text(rpt_to))
    for rep in reports:
        pri = rep['primary']
        if rpt_to == ['dtn', 'none']:
            out.fail('report-to-none', 'a status report was emitted although report-to is dtn:none (%s)' % where)
            continue
        if pri['dest'] != rpt_to:
            out.fail('report-destination', 'status report addressed to %s, report-to is %s' % (r.eid_text(pri['dest']), r.eid_text(rpt_to)))
        if pri['flags'] & (r.FLAG_RPT_RECEPTION | r.FLAG_RPT_FORWARD | r.FLAG_RPT_DELIVERY | r.FLAG_RPT_DELETION):
            out.fail('report-requests-reports', 'the status report itself requests status reports (flags 0x%x)' % pri['flags'])
        if not (rep['_crc_ok'] if '_crc_ok' in rep else r.all_crc_ok(rep)):
            out.fail('report-crc', 'status report has an invalid CRC')
        if pri['crc_type'] == 0:
            # (RFC 9171 4.3.1: a primary block that no BIB targets carries a CRC - "valid CRCs" is not met by having none)
            out.fail('report-primary-without-crc', 'status report leaves with CRC type 0 on its primary block (subject primary CRC type %s)'
                     % bundle['primary']['crc_type'])
        if r.payload_block(rep)['crc_type'] == 0:
            out.label('report-payload-without-crc')
        try:
            body = r.parse_status_report(r.payload_block(rep)['data'])
        except r.RefError as exc:
            out.fail('report-undecodable', 'status report payload is not an RFC 9171 status report: %s' % exc)
            continue
        if body['src'] != bundle['primary']['src'] or body['ts'] != bundle['primary']['ts']:
            out.fail('report-subject', 'report subject %s %s, bundle %s %s' % (body['src'], body['ts'],
                                                                                   bundle['primary']['src'], bundle['primary']['ts']))
        names = ['received', 'forwarded', 'delivered', 'deleted']
        asserted = set(n for n, (flag, _t) in zip(names, body['status']) if flag)
        asserted_all |= asserted
        extra = asserted - (requested & occurred)
        if extra:
            kind = 'not-requested' if extra - requested else 'did-not-occur'
            out.fail('report-asserts-%s:%s' % (kind, ','.join(sorted(extra))),
                     'status report asserts %s which was %s (%s; occurred %s)' % (sorted(extra), kind, where, sorted(occurred)))
        for n, (flag, when) in zip(names, body['status']):
            if flag and (when is not None) != want_time:
                out.fail('report-time', 'status %s carries %s time, status-time requested=%s' % (n, 'a' if when is not None else 'no', want_time))
            if not flag and when is not None:
                out.fail('report-time-unasserted', 'unasserted status %s carries a time' % n)
        if 'forwarded' in occurred and 'deleted' in asserted:
            out.fail('forwarded-reported-deleted', 'bundle was forwarded (%d bundles to the CL) but reported deleted, reason %d (%s)'
                     % (len(forwarded), body['reason'], where))
    if reports and not should and rpt_to != ['dtn', 'none'] and not asserted_all:
        out.fail('report-without-cause', 'a status report without any asserted status was emitted (%s)' % where)
    if outcome not in ('noroute', 'frag-unusable'):
        # (for those two only the stated direction is judged: nothing may be asserted that did not happen)
        missing = should - asserted_all
        if missing:
            out.fail('report-missing:%s' % ','.join(sorted(missing)), 'requested and occurred but never reported: %s (%s; %d reports)'
                     % (sorted(missing), where, len(reports)))
    if reports or (requested and not reports):
        out.nontrivial = True
    out.label('outcome:' + outcome, 'reports:%d' % len(reports), 'rpt-to:%s' % ('none' if rpt_to == ['dtn', 'none'] else rpt_to[0]))
