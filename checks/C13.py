''' C13 - UDPCL transfers arrive intact and no datagram exceeds the MTU. '''
import itertools

from hypothesis import strategies as st

from vlib import boot
from vlib.engine import Outcome

PROPERTY = 'C13'
RULE = ('Real UDPCL agents over an in-memory datagram network: one to three senders (two hosts, two of them sharing one address with different source ports) queue 1-3 real (reference-encoded) '
        'bundles through the send_bundle_data D-Bus method with mtu_default from {None, 64, 65, 100, 256, 300, 1200, 9000} or any value in 24..330 (every one of them enumerated) '
        'and bundle lengths on CBOR head boundaries and at mtu-60..mtu+100; the paced transmit path runs on the virtual '
        'clock and every datagram handed to sendmsg is captured.  The captured datagrams then arrive at a real receiver '
        'in a generated order (each at least once), with exact repeats, with zero padding appended, and with two messages '
        'concatenated into one datagram; a second peer uses the same transfer ids.  ALL permutations of the segments of '
        'enumerated transfers with <= 5 segments are delivered too.  Oracle (independent CBOR parser): every datagram <= '
        'mtu; segments tile [0,total) and concatenate to the bundle; a bundle shorter than the mtu is one datagram; the '
        'receiver announces a transfer exactly when an interval-coverage model keyed by (peer address, port, transfer id) '
        'says the last missing octet arrived; every queued item equals one of the bundles sent; padding is ignored and '
        'each message of a datagram is handled.  Non-trivial = a transfer of >= 3 segments arriving out of offset order; '
        'distinct by SHA-1 of the case.')
SHRINK_KEYS = ('ops',)
SHRINK_KINDS = ('list',)
ASSUMPTIONS = [
    'mtu >= 24 (below that no segment fits at all)',
    'bundles are real RFC 9171 encodings (an unsegmented datagram is recognised by its CBOR array head)',
    'the transmit pacing runs on the virtual clock (time.monotonic_ns inside udpcl.agent is rebound)',
]
EXHAUSTIVE_PART = 'all arrival permutations of the segments of enumerated transfers with <= 5 segments; every mtu in 24..330 (quick: 24..79, 250..299) with two bundle lengths'


def prepare():
    boot.udpcl()


def budgets(tier):
    if tier == 'quick':
        return dict(shards=16, examples=25)
    return dict(shards=16, examples=3600, deadline_s=3000)


def strategy(tier):
    from vlib import udpcl_machine as um
    return um.cases()


def enumerate_cases(tier):
    combos = [(64, 40), (100, 150), (100, 250), (300, 1000)] if tier == 'quick' else \
        [(64, 40), (64, 60), (100, 150), (100, 250), (256, 700), (300, 1000), (300, 1200)]
    for mtu in (64, 100, 300, 1200):
        for rel in (-2, -1, 0, 1, 2, 3):
            yield {'mtu': mtu, 'sends': [{'plen': 10, 'seed': 5, 'peer': 1, 'rel': rel}], 'ops': [], 'queries': ['pop'], 'poll': False}
    # every MTU around the CBOR head-width boundaries of the per-segment size computation
    for mtu in range(24, 331) if tier != 'quick' else itertools.chain(range(24, 80), range(250, 300)):
        for plen in (3 * mtu + 7, 700):
            yield {'mtu': mtu, 'sends': [{'plen': plen, 'seed': 3, 'peer': 1}], 'ops': [['d', 1, 0]], 'queries': ['pop'], 'poll': False}
    # transfers of more than 64 KiB whose late segments (offsets beyond 65536) arrive before their predecessors
    for mtu, plen in ((1200, 70000), (9000, 100000)):
        for ops in ([['d', -1, 0]], [['d', -2, 0], ['d', -1, 0]], [['d', -1, 0]] * 70, [['d', -3, 0], ['d', 0, 0], ['d', -1, 0]]):
            yield {'mtu': mtu, 'sends': [{'plen': plen, 'seed': 4, 'peer': 1}], 'ops': ops, 'queries': ['pop'], 'poll': False}
    # two agents behind one address (different source ports), both numbering their first transfer 0, interleaved
    for perm in itertools.permutations(range(4)):
        ops = []
        remaining = list(range(4))
        for choice in perm:
            ops.append(['d', remaining.index(choice), 0])
            remaining.remove(choice)
        yield {'mtu': 100, 'sends': [{'plen': 130, 'seed': 1, 'peer': 1}, {'plen': 140, 'seed': 2, 'peer': 3}], 'ops': ops,
               'queries': ['pop', 'pop'], 'poll': False}
    for mtu, plen in combos:
        base = {'mtu': mtu, 'sends': [{'plen': plen, 'seed': 3, 'peer': 1}], 'queries': ['queue', 'pop'], 'poll': False}
        # the number of segments is not known here: permutations are expressed as removal indices
        for perm in itertools.permutations(range(5)):
            ops = []
            remaining = list(range(5))
            for choice in perm:
                ops.append(['d', remaining.index(choice), 0])
                remaining.remove(choice)
            yield dict(base, ops=ops)


def pinned_cases():
    yield 'receiver-with-smaller-mtu', {'mtu': 300, 'recv_mtu': 64, 'sends': [{'plen': 150, 'seed': 1, 'peer': 1}, {'plen': 900, 'seed': 2, 'peer': 1}],
                                        'ops': [['d', 1, 0]], 'queries': ['pop', 'pop'], 'poll': False}
    yield 'three-segments-reversed', {'mtu': 100, 'sends': [{'plen': 150, 'seed': 1, 'peer': 1}], 'ops': [['d', 2, 0], ['d', 1, 0], ['d', 0, 0]],
                                      'queries': ['queue', 'pop', 'pop-twice', 'pop-unknown'], 'poll': True}
    yield 'same-host-two-ports-same-id', {'mtu': 60, 'sends': [{'plen': 150, 'seed': 1, 'peer': 1}, {'plen': 160, 'seed': 2, 'peer': 3}],
                                          'ops': [['d', 0, 0], ['d', 4, 0], ['d', 0, 0], ['d', 3, 0], ['d', 1, 0]], 'queries': ['pop'], 'poll': False}
    yield 'two-peers-same-id', {'mtu': 100, 'sends': [{'plen': 150, 'seed': 1, 'peer': 1}, {'plen': 160, 'seed': 2, 'peer': 2}],
                                'ops': [['d', 3, 0], ['c', 0, 0], ['r', 0, 0], ['p', 1, 4]], 'queries': [], 'poll': False}


def execute(case):
    from vlib import udpcl_machine as um
    out = Outcome()
    trace = um.execute(case, out)
    out.nontrivial = bool(trace['multi_seg'] and trace['reordered'])
    return out
