''' C16 - COSE confidentiality blocks encrypt, bind context and decrypt exactly. '''
import itertools

from hypothesis import strategies as st

from vlib import boot
from vlib.engine import Outcome

PROPERTY = 'C16'
LEVEL = 'fault_enumeration'
RULE = ('A bundle with a generated plaintext payload (0..5000 octets incl. empty) and an extension block gets a Block '
        'Confidentiality Block over {payload, extension block, both} either (A) from a real source agent with a policy '
        'for COSE_Encrypt0 (A128GCM / A256GCM direct key) or COSE_Encrypt with an A256KW wrapped content key, an IV '
        'list that is sufficient, empty ("use random") or exhausted by earlier bundles, plain payloads or status reports in '
        'object form, through its real transmit chain, or (B) from the independent reference source (Encrypt0, scopes '
        'the repository never emits, or no scope parameter at all = default scope).  Oracle part 1 on the wire (independent codec): the target data differs from the '
        'plaintext and the independent decryptor vlib/refcose.py recovers exactly the plaintext.  Part 2: the encoded '
        'bundle is altered (every ciphertext bit for small cases, each primary field, target type/number/flags, security '
        'source, scope entries, the scope parameter removed or retyped, additional-protected parameter, IV, kid, protected header, wrong / missing key) and fed '
        'to a fresh real receiver with accept_after_verify on or off: it delivers iff the reference still decrypts; on '
        'acceptance the application sees exactly the plaintext and no BCB, without acceptance the bundle unchanged; '
        'otherwise the plaintext never reaches an application and a deletion with a security reason (12..16) is '
        'recorded.  Non-trivial = non-empty plaintext and at least one covered and one uncovered alteration evaluated; '
        'distinct by SHA-1 of the case.')
SHRINK_KEYS = ('alterations',)
SHRINK_KINDS = ('list',)
ASSUMPTIONS = [
    'AES-GCM / AES-KW primitives from the cryptography package are trusted; the COSE structures around them are independent',
    'the policy template lists one IV per target, or (policy_ivs 0 / 1, several bundles in a row) fewer than needed: '
    'SecOperation documents an empty list as "use random"; the reference takes the IV from the message header',
]
EXHAUSTIVE_PART = 'every single-bit flip of the ciphertext of the enumerated small cases; every catalogue alteration per mode x target'

SEC_REASONS = {12, 13, 14, 15, 16}
SCOPES = [{0: 1, -1: 1}, {0: 1, -1: 1, -2: 1}, {-1: 1}, {0: 1, -1: 1, 3: 3}, None]    # None: no scope parameter, the default applies
# ('enc0-256-emptykid': a direct key whose key identifier is the empty byte string, a legal COSE kid)
MODES = ['enc0-256', 'enc0-128', 'kw', 'enc0-256-emptykid']
ALTERATION_KINDS = ['pri-flags', 'pri-dest', 'pri-src', 'pri-time', 'pri-seq', 'pri-lifetime', 'tgt-data', 'tgt-flags',
                    'tgt-type', 'tgt-num', 'tgt-crc-type', 'other-data', 'other-flags', 'sec-source', 'sec-scope',
                    'sec-addl-protected', 'res-protected', 'res-kid', 'res-iv', 'wrong-key', 'no-key', 'sec-scope-retype', 'sec-scope-drop', 'res-attach', 'recipient-extra']


def prepare():
    boot.bp()
    from vlib import refcose
    import os
    refcose.selftest(os.path.join(boot.REPO_SRC, 'bp', 'test', 'data'))


def budgets(tier):
    if tier == 'quick':
        return dict(shards=16, examples=6)
    return dict(shards=16, examples=900, deadline_s=3000)


@st.composite
def cases(draw):
    alts = [[draw(st.sampled_from(ALTERATION_KINDS)), draw(st.integers(0, 255)), draw(st.integers(0, 40000))]
            for _ in range(draw(st.integers(4, 12)))]
    return {'direction': draw(st.sampled_from(['A', 'A', 'B'])), 'mode': draw(st.sampled_from(MODES)),
            'targets': draw(st.sampled_from([['payload'], ['payload'], ['ext'], ['payload', 'ext']])),
            'scope': draw(st.integers(0, len(SCOPES) - 1)), 'accept': draw(st.booleans()),
            'plen': draw(st.sampled_from([0, 1, 15, 16, 17, 300, 5000])), 'seed': draw(st.integers(0, 99)),
            'pcrc': draw(st.sampled_from([0, 1, 2])), 'bcrc': draw(st.sampled_from([0, 1, 2])), 'alterations': alts,
            # direction A only: how many IVs the policy template lists (None = one per target; 0 = "use random", as the
            # SecOperation documentation says of an empty list), how many bundles went through the association before
            # the judged one, and whether the payload is an administrative record in object form (a status report as
            # the agent itself builds them)
            'policy_ivs': draw(st.sampled_from([None, None, 0, 1])), 'earlier': draw(st.sampled_from([0, 0, 1, 2])),
            'admin_obj': draw(st.sampled_from([False, False, True])),
            # the extension-block target is a hop count block built from an object whose type code comes from the layer
            # binding only (how the agent builds its own blocks), instead of an unknown-type block given as octets
            'ext_object': draw(st.sampled_from([False, False, True]))}


def strategy(tier):
    return cases()


def enumerate_cases(tier):
    for case in limit_cases():
        yield case
    catalogue = [[k, i, i * 5] for k in ALTERATION_KINDS for i in (0, 1)]
    for direction, mode, targets, accept in itertools.product(('A', 'B'), MODES, (['payload'], ['ext'], ['payload', 'ext']), (False, True)):
        if direction == 'B' and mode == 'kw':
            continue
        yield {'direction': direction, 'mode': mode, 'targets': targets, 'scope': 1 if direction == 'B' else 0, 'accept': accept,
               'plen': 9, 'seed': 1, 'pcrc': 0, 'bcrc': 0, 'alterations': catalogue}
        if direction == 'B' and mode == 'enc0-256':
            # a source that states no AAD scope at all (the default scope covers the security block itself too)
            yield {'direction': 'B', 'mode': mode, 'targets': targets, 'scope': len(SCOPES) - 1, 'accept': accept,
                   'plen': 9, 'seed': 1, 'pcrc': 0, 'bcrc': 0, 'alterations': catalogue}
    # the association as configured by default (no IV list), used for several bundles in a row, admin-record payloads
    short = [['tgt-data', 0, 3], ['pri-time', 0, 0], ['other-data', 0, 0], ['res-iv', 0, 2], ['wrong-key', 0, 0]]
    for mode, targets, ivs, earlier, admin in itertools.product(MODES, (['payload'], ['payload', 'ext']), (None, 0, 1), (0, 1, 2), (False, True)):
        yield {'direction': 'A', 'mode': mode, 'targets': targets, 'scope': 0, 'accept': True, 'plen': 9, 'seed': 2, 'pcrc': 1, 'bcrc': 1,
               'alterations': short, 'policy_ivs': ivs, 'earlier': earlier, 'admin_obj': admin}
    for mode, targets, accept in itertools.product(MODES, (['ext'], ['payload', 'ext']), (False, True)):
        yield {'direction': 'A', 'mode': mode, 'targets': targets, 'scope': 0, 'accept': accept, 'plen': 9, 'seed': 2, 'pcrc': 1, 'bcrc': 1,
               'alterations': short, 'policy_ivs': None, 'earlier': 0, 'admin_obj': False, 'ext_object': True}
    # every ciphertext bit (payload ciphertext = plaintext length + 16 octet tag)
    for direction, mode in (('A', 'enc0-256'), ('A', 'kw'), ('B', 'enc0-128')):
        plen = 4 if tier == 'quick' else 12
        bits = 8 * (plen + 16)
        yield {'direction': direction, 'mode': mode, 'targets': ['payload'], 'scope': 0, 'accept': True, 'plen': plen, 'seed': 3,
               'pcrc': 0, 'bcrc': 0, 'alterations': [['tgt-bit', 0, b] for b in range(bits)]}


def limit_cases():
    ''' A content-encryption algorithm with a plaintext limit (AES-CCM-16-64-128 with the 13-octet nonce RFC 9053
    prescribes: 65535 octets) and targets around that limit, one or both of them. '''
    for plen, extlen, targets in itertools.product((40, 65535, 65536), (100, 65535, 70000), (['payload'], ['ext'], ['payload', 'ext'])):
        yield {'kind': 'limit', 'plen': plen, 'extlen': extlen, 'targets': targets, 'seed': 1}


def execute_limit(case):
    ''' Whatever the source does with a target it cannot encrypt, nothing half-done may leave: a target is either
    covered by a BCB on the wire (and then is not the plaintext, and the receiver holding the key recovers the plaintext),
    or it is not - and then its octets are the original ones (encrypted octets without the BCB that says how to decrypt
    them are lost to everybody). '''
    from vlib import bp_world as bw, ref9171 as r, bpconv, bpsec_util as bu, strat9174, refcose as rc
    from bp.util import BundleContainer
    from pycose import algorithms
    from pycose.keys import SymmetricKey, keyparam, keyops
    out = Outcome()

    def ccm_key():
        return SymmetricKey(k=bytes(range(16)), optional_params={keyparam.KpKid: b'k-ccm', keyparam.KpAlg: algorithms.AESCCM1664128,
                                                                keyparam.KpKeyOps: [keyops.EncryptOp, keyops.DecryptOp]})
    bw.reset()
    src = bw.Node('dtn://srcnode/', tx_routes=[('.*', 'dtn://next/', None)], name='source')
    src.bpsec.sym_key_store[b'k-ccm'] = ccm_key()
    types = sorted({1 if t == 'payload' else 192 for t in case['targets']})
    bu.add_policy(src, 'bcb', 'k-ccm', types, ivs=[bytes([0x41 + i]) * 13 for i in range(len(types))])
    blocks = [dict(type=192, num=2, flags=0, crc_type=1, data=strat9174.content(int(case['extlen']), case['seed'] + 1).hex()),
              dict(type=1, num=1, flags=0, crc_type=1, data=strat9174.content(int(case['plen']), case['seed']).hex())]
    pri = dict(version=7, flags=0, crc_type=1, dest=['dtn', '//dst/svc'], src=['dtn', '//srcnode/app'], rpt=['dtn', 'none'],
               ts=[789004000000, 5], lifetime=3600000, frag=None)
    plain = {b['num']: b['data'] for b in blocks}
    src.send(BundleContainer(bpconv.to_repo({'primary': pri, 'blocks': blocks})))
    for esc in src.escapes():
        out.fail('escape:%s@%s' % (esc.exc_type, esc.frame), 'exception escaped a main-loop callback at the source: %s' % esc.exc_msg[:100])
    sent = src.sent()
    feasible = all((case['plen'] if t == 'payload' else case['extlen']) <= 65535 for t in case['targets'])
    out.label('limit', 'limit:feasible' if feasible else 'limit:infeasible', 'limit:sent-%d' % len(sent))
    out.nontrivial = not feasible
    desc = 'targets %s, payload %d octets, extension block %d octets' % (case['targets'], case['plen'], case['extlen'])
    if feasible and len(sent) != 1:
        out.fail('source-failed', 'every target is within the limit of the algorithm but %d bundles left the source (%s)' % (len(sent), desc))
    for wire in sent:
        try:
            dec = r.strip(r.decode(wire))
        except r.RefError as exc:
            out.fail('source-not-wellformed', 'the source agent emitted a malformed bundle: %s' % exc)
            continue
        covered = set()
        for bcb in rc.security_blocks(dec, 12):
            covered.update(rc.parse_asb(bcb['data'])['targets'])
        for blk in dec['blocks']:
            if blk['num'] not in plain:
                continue
            same = blk['data'] == plain[blk['num']]
            if blk['num'] in covered and same and plain[blk['num']]:
                out.fail('plaintext-on-the-wire', 'target block %d travels in clear although a BCB targets it (%s)' % (blk['num'], desc))
            if blk['num'] not in covered and not same:
                out.fail('encrypted-without-bcb', 'block %d left the source changed (%d octets, original %d) and no BCB on the wire says how to '
                         'recover it (%s)' % (blk['num'], len(blk['data']) // 2, len(plain[blk['num']]) // 2, desc))
        if covered:
            # the receiver with the key gets the plaintext back
            bw.reset()
            node = bw.Node('dtn://dst/', rx_routes=[('^dtn://dst/', 'deliver')], tx_routes=[('.*', 'dtn://next/', None)],
                           accept_after_verify=True, name='dst')
            node.bpsec.sym_key_store[b'k-ccm'] = ccm_key()
            node.receive(wire)
            recs = node.records()
            got = {num: data.hex() for rec in recs[:1] for (_t, num, data) in rec['blocks']}
            for num in covered:
                if num in plain and got.get(num) != plain[num]:
                    out.fail('receiver-does-not-recover', 'the receiver holding the key got %s octets for target %d, plaintext has %d (%s)'
                             % (None if got.get(num) is None else len(got[num]) // 2, num, len(plain[num]) // 2, desc))
    return out


def pinned_cases():
    yield 'A-enc0', {'direction': 'A', 'mode': 'enc0-256', 'targets': ['payload'], 'scope': 0, 'accept': True, 'plen': 20, 'seed': 1,
                     'pcrc': 2, 'bcrc': 1, 'alterations': [['tgt-data', 0, 3], ['pri-time', 0, 0], ['other-data', 0, 0], ['res-iv', 0, 2], ['wrong-key', 0, 0]]}
    yield 'A-empty', {'direction': 'A', 'mode': 'enc0-128', 'targets': ['payload'], 'scope': 0, 'accept': False, 'plen': 0, 'seed': 1,
                      'pcrc': 0, 'bcrc': 0, 'alterations': [['tgt-data', 0, 3], ['no-key', 0, 0]]}


def base_bundle(case):
    from vlib import ref9171 as r, strat9174
    blocks = [dict(type=192, num=2, flags=0, crc_type=case['bcrc'], data=strat9174.content(6, case['seed'] + 1).hex()),
              dict(type=193, num=3, flags=0, crc_type=case['bcrc'], data=strat9174.content(4, case['seed'] + 2).hex()),
              dict(type=1, num=1, flags=0, crc_type=case['bcrc'], data=strat9174.content(case['plen'], case['seed']).hex())]
    if case.get('ext_object') and case['direction'] == 'A':
        blocks[0] = dict(type=10, num=2, flags=0, crc_type=case['bcrc'], data=r.btsd_hop_count(30, 2))
    pri = dict(version=7, flags=r.FLAG_RPT_DELETION, crc_type=case['pcrc'], dest=['dtn', '//dst/svc'], src=['dtn', '//srcnode/app'],
               rpt=['dtn', '//reports/'], ts=[789004000000, 5], lifetime=3600000, frag=None)
    if case.get('admin_obj') and case['direction'] == 'A':
        # a status report, handed to the source as payload *object* (what Agent.create_report builds)
        pri['flags'] = r.FLAG_ADMIN
        pri['rpt'] = ['dtn', 'none']
        blocks[-1]['data'] = r.status_report([[True, 5], [False], [False], [True, 7]], 6, ['dtn', '//subject/'], [1000, case['seed']])
    return {'primary': pri, 'blocks': blocks}


def mode_params(mode):
    ''' :return: (content alg id, policy key id, kids the receiver needs) '''
    if mode == 'enc0-256':
        return 3, 'k-enc-1', ['k-enc-1']
    if mode == 'enc0-128':
        return 1, 'k-enc-16', ['k-enc-16']
    if mode == 'enc0-256-emptykid':
        return 3, '', ['']
    return 3, 'k-kek-1', ['k-kek-1']


def provision(node, mode, key_override=None, no_key=False):
    from vlib import bpsec_util as bu
    alg, kid, _ = mode_params(mode)
    if not no_key:
        if mode == 'kw':
            bu.give_key(node, kid, -5, 'wrap', keybytes=key_override)
        else:
            bu.give_key(node, kid, alg, 'enc', keybytes=key_override)
    bu.give_key(node, 'k-enc-2', 3, 'enc')


def encrypt(case, out):
    from vlib import bp_world as bw, ref9171 as r, bpconv, bpsec_util as bu
    from bp.util import BundleContainer
    from pycose import algorithms
    bundle = base_bundle(case)
    target_nums = [1 if t == 'payload' else 2 for t in case['targets']]
    alg, kid, _ = mode_params(case['mode'])
    ivs = [bytes([0x40 + i]) * 12 for i in range(len(target_nums))]
    if case['direction'] == 'A':
        bw.reset()
        src = bw.Node('dtn://srcnode/', tx_routes=[('.*', 'dtn://next/', None)], name='source')
        provision(src, case['mode'])
        types = sorted({1 if t == 'payload' else (10 if case.get('ext_object') else 192) for t in case['targets']})
        n_ivs = case.get('policy_ivs')
        pol_ivs = ivs if n_ivs is None else [bytes([0x60 + i]) * 12 for i in range(int(n_ivs))]
        if case['mode'] == 'kw':
            bu.add_policy(src, 'bcb', kid, types, content_alg=algorithms.A256GCM, ivs=pol_ivs)
        else:
            bu.add_policy(src, 'bcb', kid, types, ivs=pol_ivs)
        admin_obj = bool(case.get('admin_obj'))
        objform = 'bound' if case.get('ext_object') else admin_obj
        earlier = int(case.get('earlier') or 0)
        for idx in range(earlier):
            # other bundles that went through the same security association first
            other = base_bundle(dict(case, seed=case['seed'] + 10 + idx))
            other['primary']['ts'] = [789004000000, 100 + idx]
            src.send(BundleContainer(bpconv.to_repo(other, objform=objform)))
        n_before = len(src.sent())
        err = src.send(BundleContainer(bpconv.to_repo(bundle, objform=objform)))
        sent = src.sent()[n_before:]
        desc = 'policy IV list %s, %d earlier bundles, admin payload object %s' % ('one per target' if n_ivs is None else n_ivs, earlier, admin_obj)
        for esc in src.escapes():
            out.fail('escape:%s@%s' % (esc.exc_type, esc.frame), 'exception escaped a main-loop callback at the source: %s' % esc.exc_msg[:100])
        if err is not None or len(sent) != 1:
            out.fail('source-failed', 'the source agent could not send the bundle with a BCB policy: %r (%d bundles; %s)' % (err, len(sent), desc))
            return None, None
        try:
            return bundle, r.strip(r.decode(sent[0]))
        except r.RefError as exc:
            out.fail('source-not-wellformed', 'the source agent emitted a malformed bundle: %s' % exc)
            return None, None
    scope = SCOPES[case['scope'] % len(SCOPES)]
    scope = dict(scope) if scope is not None else None
    return bundle, bu.ref_add_bcb(bundle, target_nums, kid, alg, scope, ivs)


def receive(wire, mode, accept, key_override=None, no_key=False):
    from vlib import bp_world as bw
    bw.reset()
    node = bw.Node('dtn://dst/', rx_routes=[('^dtn://dst/', 'deliver')], tx_routes=[('.*', 'dtn://next/', None)],
                   accept_after_verify=accept, name='dst')
    provision(node, mode, key_override, no_key)
    finishes = []
    orig = node.agent._finish_bundle

    def finish(ctr):
        finishes.append((sorted(ctr.actions), ctr.status_reason))
        return orig(ctr)
    node.agent._finish_bundle = finish
    err = node.receive(wire)
    return node.records(), finishes, err, node.escapes()


def execute(case):
    if case.get('kind') == 'limit':
        return execute_limit(case)
    from vlib import ref9171 as r, refcose as rc, bpsec_util as bu
    out = Outcome()
    if case['direction'] == 'B' and case['mode'] == 'kw':
        case = dict(case, mode='enc0-256')    # the reference source only builds COSE_Encrypt0
    plain_bundle, sealed = encrypt(case, out)
    if sealed is None:
        return out
    mode = case['mode']
    _alg, kid, kids = mode_params(mode)
    good_keys = bu.ref_keys(kids + ['k-enc-2'])
    accept = bool(case['accept'])
    if case['direction'] == 'A':
        out.label('policy-ivs:%s' % case.get('policy_ivs'), 'earlier:%s' % (case.get('earlier') or 0),
                  'admin-payload-object' if case.get('admin_obj') else 'plain-payload')
    out.label('direction:' + case['direction'], 'mode:' + mode, 'targets:' + '+'.join(case['targets']),
              'accept' if accept else 'verify-only', 'plen:%d' % case['plen'])
    bcbs = rc.security_blocks(sealed, 12)
    if len(bcbs) != 1:
        out.fail('bcb-count', 'expected one BCB on the wire, found %d' % len(bcbs))
        return out
    target_nums = rc.parse_asb(bcbs[0]['data'])['targets']
    plain = {b['num']: b['data'] for b in plain_bundle['blocks']}
    # part 1: ciphertext on the wire, reference decrypts to the plaintext
    try:
        recovered = rc.decrypt_bcb(sealed, bcbs[0], good_keys)
    except rc.CoseError as exc:
        out.fail('reference-cannot-read-bcb', 'independent decryptor cannot read the BCB: %s' % exc)
        return out
    for num in target_nums:
        wire_data = next(b for b in sealed['blocks'] if b['num'] == num)['data']
        if wire_data == plain[num] or (len(plain[num]) >= 16 and plain[num] in wire_data):
            out.fail('plaintext-on-the-wire', 'target block %d travels in clear although a BCB targets it' % num)
        if recovered.get(num) is None or recovered[num].hex() != plain[num]:
            out.fail('reference-decrypt-mismatch', 'independent decryption of target %d gives %r, plaintext was %d octets'
                     % (num, recovered.get(num) and recovered[num][:8], len(plain[num]) // 2))
            return out
    # part 2: receiver
    def judge(wire, mutated, keys, key_override, no_key, desc, one_directional=False):
        verdict = None
        if mutated is not None:
            try:
                blocks = rc.security_blocks(mutated, 12)
                if blocks:
                    res = [rc.decrypt_bcb(mutated, b, keys) for b in blocks]
                    verdict = all(v is not None for d in res for v in d.values())
                    texts = {}
                    for d in res:
                        texts.update(d)
                else:
                    verdict = None
            except (rc.CoseError, r.RefError, ValueError, KeyError, IndexError, TypeError):
                verdict = False
        recs, fins, err, escapes = receive(wire, mode, accept, key_override, no_key)
        for esc in escapes:
            out.fail('escape:%s@%s' % (esc.exc_type, esc.frame), 'exception escaped a main-loop callback after %s: %s' % (desc, esc.exc_msg[:100]))
        delivered = bool(recs)
        # the plaintext of an encrypted target must never reach an application unless decryption was legitimate
        leaked = False
        for rec in recs:
            for (tcode, num, data) in rec['blocks']:
                if num in target_nums and plain.get(num) and data.hex() == plain[num] and verdict is False:
                    leaked = True
        if leaked:
            out.fail('plaintext-released-after-failure', 'the plaintext reached an application although decryption must fail (%s)' % desc)
        if verdict is None or (one_directional and verdict):
            return verdict
        if verdict:
            if not delivered:
                out.fail('uncovered-change-rejected:%s' % desc.split()[0], 'change outside the authenticated context (%s) made the '
                         'receiver withhold the bundle (finish %s, error %r)' % (desc, fins, err))
                return verdict
            rec = recs[0]
            got = {num: data.hex() for (_t, num, data) in rec['blocks']}
            for num in target_nums:
                want = texts[num].hex() if accept else next(b for b in mutated['blocks'] if b['num'] == num)['data']
                if got.get(num) != want:
                    out.fail('delivered-data-wrong:%s' % ('accepted' if accept else 'verify-only'),
                             'target %d reached the application as %d octets, expected the %s (%d octets) (%s)'
                             % (num, len(got.get(num, '')) // 2, 'plaintext' if accept else 'unchanged ciphertext', len(want) // 2, desc))
            has_bcb = 12 in rec['block_types']
            if accept and has_bcb:
                out.fail('bcb-not-removed-on-acceptance', 'the accepted BCB is still part of the delivered bundle (%s)' % desc)
            if not accept and not has_bcb:
                out.fail('bcb-removed-without-acceptance', 'the BCB disappeared although acceptance is not configured (%s)' % desc)
        else:
            if delivered:
                out.fail('covered-change-accepted:%s' % desc.split()[0], 'decryption must fail after %s but the bundle was delivered' % desc)
            elif not one_directional:
                reasons = [reason for acts, reason in fins if 'delete' in acts]
                if not reasons:
                    out.fail('failure-not-recorded', 'decryption failed after %s but no deletion was recorded (finish %s, error %r)' % (desc, fins, err))
                elif not all(isinstance(x, int) and int(x) in SEC_REASONS for x in reasons):
                    out.fail('failure-without-security-reason', 'decryption failed after %s, deletion reason %r' % (desc, reasons))
        return verdict

    base_verdict = judge(r.encode(sealed), sealed, good_keys, None, False, 'unmodified')
    if base_verdict is not True:
        out.fail('unmodified-undecryptable', 'reference verdict for the unmodified bundle is %r' % base_verdict)
        return out
    n_cov = n_unc = 0
    wire_sealed = r.encode(sealed)
    for alt in case['alterations']:
        kind, arg1, arg2 = alt[0], alt[1], alt[2]
        keys, key_override, no_key = good_keys, None, False
        mutated = sealed
        one_dir = False
        if kind == 'wrong-key':
            key_override = bu.KEYS['k-enc-2'] if mode != 'enc0-128' else bu.KEYS['k-enc-2'][:16]
            keys = dict(good_keys)
            keys[kid.encode('ascii')] = key_override
        elif kind == 'no-key':
            no_key = True
            keys = {b'k-enc-2': bu.KEYS['k-enc-2']}
        elif kind == 'tgt-bit':
            blk_num = target_nums[arg1 % len(target_nums)]
            mutated = r.strip(r.decode(wire_sealed))
            blk = next(b for b in mutated['blocks'] if b['num'] == blk_num)
            data = bytearray(bytes.fromhex(blk['data']))
            if not data:
                continue
            bit = arg2 % (8 * len(data))
            data[bit // 8] ^= 0x80 >> (bit % 8)
            blk['data'] = bytes(data).hex()
        else:
            if kind.startswith('tgt-'):
                alt = [kind, target_nums[arg1 % len(target_nums)], arg2]
            elif kind.startswith('other-'):
                alt = [kind, 3, arg2]
            elif kind.startswith('res-'):
                alt = [kind, arg1 % len(target_nums), arg2]
            try:
                mutated = bu.alter(sealed, alt, 12)
            except Exception as exc:
                if kind == 'res-kid' and mode == 'kw':
                    continue   # the kid of a wrapped key lives in the recipient, not in the message header
                out.fail('harness-alter', 'alteration %r failed in the harness: %s' % (alt, exc))
                continue
            if mutated == sealed:
                continue
        out.count('alterations_evaluated')
        out.count('alteration:%s' % kind)
        verdict = judge(r.encode(mutated), mutated, keys, key_override, no_key, '%s %s' % (kind, alt[1:]), one_dir)
        if verdict:
            n_unc += 1
        elif verdict is False:
            n_cov += 1
    out.nontrivial = case['plen'] > 0 and n_cov >= 1 and n_unc >= 1
    out.count('covered', n_cov)
    out.count('uncovered', n_unc)
    return out
