''' C01 - TCPCL delivers every queued bundle exactly once, intact and in order. '''
from hypothesis import strategies as st

from vlib import boot
from vlib.engine import Outcome

PROPERTY = 'C01'
RULE = ('Model-based histories over two real ContactHandlers joined by a simulated TCP link on a virtual GLib loop: '
        'Hypothesis draws segment size / segment MRU per side from {1,2,3,7,64,1000,10240,100000}, per-direction pipe '
        'capacity from {unbounded,1,5,64,4096}, a scheduling regime and an operation list (user sends of lengths '
        '0,1,2,seg-1,seg,seg+1,k*seg, around 10240 and random; scheduler runs whose integers are decoded against the '
        'currently enabled decisions: iterate A / iterate B / release k octets A>B / B>A; pops; capacity changes), '
        'then a fair drain.  Oracle: per-direction FIFO model of queued byte strings vs. recv_bundle_finished order, '
        'popped data, send_bundle_finished(success) ordering after the peer recv_bundle_finished, and an independent '
        'RFC 9174 reassembly of the sender octet log.  Non-trivial = some bundle needed >= 2 segments AND the network '
        'cut strictly inside a message at least once; distinct by SHA-1 of the case.')
SHRINK_KEYS = ('ops',)
ASSUMPTIONS = [
    'GLib dispatch model of vlib/simloop.py (one iteration = all ready sources of the most urgent ready priority)',
    'non-blocking socket model of vlib/simnet.py (partial writes, EAGAIN when the pipe is full)',
    'keepalive/idle timers off (C14 owns timers)',
    'in histories with TLS (scripted pass-through socket, cfg.tls) the link takes at least 64 octets at once: the endpoint '
    'handshakes on a blocking socket, which cannot be simulated while cleartext is still unwritten (DESIGN.md section 3)',
]



def prepare():
    boot.tcpcl()


def budgets(tier):
    if tier == 'quick':
        return dict(shards=16, examples=150)
    return dict(shards=16, examples=4500, deadline_s=3000)


def strategy(tier):
    from vlib import tcpcl_machine as tm
    free = tm.cases(max_ops=14 if tier == 'quick' else 24, keepalive=True)
    return st.one_of(free, free, free, tm.timer_midmessage_cases())


def pinned_cases():
    cfg = {'a': dict(seg_init=3, mru=7, keepalive=0, idle=0), 'b': dict(seg_init=2, mru=2, keepalive=0, idle=0),
           'cap_ab': None, 'cap_ba': None, 'regime': 'fair', 'priv_ext': False}
    yield 'two-way', {'cfg': cfg, 'ops': [['send', 'A', 11, 1], ['send', 'B', 5, 2], ['run', [0, 1, 2, 3] * 8],
                                          ['send', 'A', 1, 3], ['pop', 'B']]}
    yield 'twelve-waiting', {'cfg': cfg, 'ops': [['estab']] + [['send', 'A', 3 + i, i] for i in range(12)] + [['send', 'B', 4, 50]]}
    # every bundle is popped before the next one is queued; the later ones are shorter than, as long as, and longer than what
    # the receiver has held before (a receive buffer must not carry anything over from an earlier transfer)
    for name, lengths in (('popped-then-shorter', [45, 62, 62, 23, 1, 0, 30]), ('popped-then-shorter-2', [700, 5, 0, 699, 701])):
        ops = [['estab']]
        for idx, length in enumerate(lengths):
            ops += [['send', 'A', length, idx + 1], ['run', [0, 1, 2, 3] * 30], ['pop', 'B']]
        yield name, {'cfg': cfg, 'ops': ops}
    yield 'zero-length', {'cfg': cfg, 'ops': [['send', 'A', 0, 1], ['send', 'A', 4, 2]]}
    cfg2 = dict(cfg, cap_ab=5, cap_ba=1, regime='bytewise')
    yield 'backpressure', {'cfg': cfg2, 'ops': [['send', 'A', 40, 1], ['run', list(range(40))], ['send', 'B', 9, 2]]}


def cut_inside_message(pipe, msgs):
    ''' Did the network release a chunk whose end lies strictly inside a message? '''
    ends = {0}
    for msg in msgs:
        ends.add(msg['end'])
    return any(cut not in ends for cut in pipe.deliveries)


def judge(trace, out, expect_all_delivered=True):
    from vlib import tcpcl_machine as tm
    world = trace.world
    tm.escapes_to(out, trace)
    multi_seg = False
    for sender, direction in (('A', 'ab'), ('B', 'ba')):
        receiver = tm.other(sender)
        queued = [(str(res), data, seq) for (res, data, seq) in trace.sent[sender]
                  if not hasattr(res, 'exc')]
        for (res, data, seq) in trace.sent[sender]:
            if hasattr(res, 'exc'):
                out.fail('send-call-error:%s' % res.name, 'send_bundle_data raised %r' % (res,))
        model = {bid: data for bid, data, _ in queued}
        order = [bid for bid, _, _ in queued]
        fin = tm.signals_of(trace, receiver, 'recv_bundle_finished')
        fin_ids = [e['args'][0] for e in fin]
        # exactly once, in order
        if len(set(fin_ids)) != len(fin_ids):
            out.fail('delivered-twice', 'receiver %s announced a transfer twice: %s' % (receiver, fin_ids))
        if fin_ids != order[:len(fin_ids)]:
            out.fail('order', 'receiver %s announced %s, sender queued %s' % (receiver, fin_ids, order))
        for ev in fin:
            bid, length, result = ev['args']
            if bid in model and (length != len(model[bid]) or result != 'success'):
                out.fail('finished-args', 'recv_bundle_finished%r for a %d-octet bundle' % (ev['args'], len(model[bid])))
        # the receive queue as a polling client sees it: what has not been popped, in the order of arrival
        unpopped = [bid for bid in fin_ids if bid not in [p[0] for p in trace.popped[receiver]]]
        listed = world.ends[receiver].call('recv_bundle_get_queue')
        if not hasattr(listed, 'exc') and not world.ends[receiver].sock.closed:
            if [str(x) for x in listed] != unpopped:
                out.fail('queue-listing-order' if sorted(str(x) for x in listed) == sorted(unpopped) else 'queue-listing',
                         'recv_bundle_get_queue() of %s lists %s, the transfers arrived (and are still there) as %s'
                         % (receiver, [str(x) for x in listed][:14], unpopped[:14]))
            if len(unpopped) >= 10:
                trace.labels.add('ten-and-more-waiting')
        # data identity (popped during the run, rest now)
        got = {}
        for bid, res, _seq in trace.popped[receiver]:
            got[bid] = res
        for bid in fin_ids:
            if bid not in got:
                got[bid] = world.ends[receiver].call('recv_bundle_pop_data', bid)
        for bid, data in got.items():
            if hasattr(data, 'exc'):
                out.fail('pop-error:%s' % data.name, 'popping announced transfer %s failed: %r' % (bid, data))
            elif bid not in model:
                out.fail('phantom', 'receiver %s holds transfer %s that was never queued' % (receiver, bid))
            elif bytes(data) != model[bid]:
                exp = model[bid]
                kind = 'truncated' if exp.startswith(bytes(data)) else ('extended' if bytes(data).startswith(exp) else 'corrupted')
                out.fail('data-' + kind, 'transfer %s arrived %s: %d octets instead of %d' % (bid, kind, len(data), len(exp)))
        # success only after the receiver holds the bundle
        sfin = tm.signals_of(trace, sender, 'send_bundle_finished')
        seen = set()
        fin_seq = {e['args'][0]: e['seq'] for e in fin}
        for ev in sfin:
            bid, length, result = ev['args']
            bid = str(bid)
            if bid in seen:
                out.fail('send-finished-twice', 'send_bundle_finished emitted twice for %s' % bid)
            seen.add(bid)
            if result == 'success':
                if bid not in fin_seq or fin_seq[bid] > ev['seq']:
                    out.fail('success-before-receipt', 'sender %s reported success for %s before the receiver held it'
                             % (sender, bid))
                if bid in model and length != len(model[bid]):
                    out.fail('success-length', 'success for %s reports %r octets, bundle has %d' % (bid, length, len(model[bid])))
        # independent reassembly of the wire
        msgs, _used, status = trace.wire[direction]
        if status.startswith('invalid'):
            out.fail('wire-invalid', 'octets written by %s are not RFC 9174 messages: %s' % (sender, status))
        transfers = tm.reassemble_wire(msgs)
        complete = [t for t in transfers if t['complete']]
        wire_list = [(str(t['id']), t['data']) for t in complete]
        if wire_list != [(bid, model[bid]) for bid in order[:len(wire_list)]]:
            out.fail('wire-mismatch', 'complete transfers on the wire of %s differ from the queued bundles' % sender)
        nseg = {}
        for msg in msgs:
            if msg['t'] == 'XFER_SEGMENT':
                nseg[msg['id']] = nseg.get(msg['id'], 0) + 1
        if any(v >= 2 for v in nseg.values()):
            multi_seg = True
        if cut_inside_message(world.link.pipe(direction), msgs):
            trace.labels.add('cut-inside-message')
        if world.link.pipe(direction).full_events:
            trace.labels.add('pipe-full')
        if world.link.pipe(direction).partial_writes:
            trace.labels.add('partial-write')
        # quiescence: everything arrived and was acknowledged
        if expect_all_delivered:
            if trace.drain_rounds is None:
                out.fail('no-quiescence', 'fair drain did not reach quiescence within the step bound')
            else:
                missing = [bid for bid in order if bid not in fin_ids]
                if missing:
                    first_missing = missing[0]
                    out.fail('lost', '%d of %d bundles from %s never arrived at quiescence (first %s, %d octets); '
                             'states %s/%s closed %s/%s' % (len(missing), len(order), sender, first_missing,
                                                           len(model[first_missing]),
                                                           world.ends['A'].hdl._state, world.ends['B'].hdl._state,
                                                           world.ends['A'].sock.closed, world.ends['B'].sock.closed))
                unacked = [bid for bid in fin_ids if bid not in seen]
                if unacked:
                    out.fail('no-success-signal', 'bundles %s arrived but sender %s never reported success' % (unacked, sender))
        if any(len(d) == 0 for d in model.values()):
            trace.labels.add('zero-length')
        if any(len(d) == 1 for d in model.values()):
            trace.labels.add('one-octet')
    if trace.sent['A'] and trace.sent['B']:
        trace.labels.add('bidirectional')
    if trace.mid_send:
        trace.labels.add('send-during-transfer')
    if multi_seg:
        trace.labels.add('multi-segment')
    return multi_seg


def execute(case):
    from vlib import tcpcl_machine as tm
    out = Outcome()
    trace = tm.execute(case)
    multi_seg = judge(trace, out)
    out.labels = sorted(trace.labels)
    out.nontrivial = multi_seg and 'cut-inside-message' in trace.labels
    return out
