''' C10 - BP agent processes each received bundle at most once and routes by first match. '''
import re

from hypothesis import strategies as st

from vlib import boot
from vlib.engine import Outcome

PROPERTY = 'C10'
RULE = ('A real bp.agent.Agent (apps admin, fragment, bpsec, sand, safe as bp/app/__init__ loads them + a recorder application at receive-chain order 30, fake '
        'convergence layer) gets a generated receive routing table (0-5 entries over an alphabet of anchored regexes x '
        '{deliver, forward, delete}) and a generated stream of 1-12 received bundles drawn from a pool of 4 identities and '
        'their look-alikes differing in exactly one of source / creation time / sequence number / fragment offset / '
        'total length, with destinations matching 0, 1 or several routes, the node own administrative EID, bundles '
        'sourced by the node itself, exact repeats and copies damaged in transit (failing CRC; dropped without trace, so a '
        'later intact copy is still new); encoded by the independent RFC 9171 encoder.  Oracle = reference '
        'model (seen-set keyed as the property says; action of the first re.match-ing route; own admin EID => deliver) '
        'compared after every receive with the recorder invocations, the agent end-of-processing records and the '
        'bundles handed to the convergence layer (decoded independently).  Non-trivial = history holds a repeat, a '
        'look-alike and a destination matching >= 2 routes with different actions; distinct by SHA-1 of the case.  Stack '
        'histories (three whole nodes, vlib/stack_world.py) also run over impaired datagram networks (netfault: every UDP datagram / '
        'Ethernet frame delivered twice in a row, the whole batch twice, in reverse order, reversed and then again in order, or '
        'rotated): whatever the convergence layers hand over twice, n2 transmits a received bundle onward at most once and every '
        'bundle is delivered at most once; non-trivial there also when a convergence layer did hand the same octets to a BP agent twice.')
SHRINK_KEYS = ('bundles', 'routes', 'ops')
ASSUMPTIONS = [
    'route patterns are anchored ("^...") or ".*", so re.match and re.search agree on what "matches" means',
    'fragments routed to "deliver" enter reassembly (C06); only their at-most-once processing is judged here',
    'the end-of-processing hook Agent._finish_bundle is wrapped on the instance to observe the action record',
]

NODE = 'dtn://me/'
PATTERNS = ['^dtn://a/', '^dtn://a/x', '^dtn://', '.*', r'^ipn:1\.', '^dtn://b/', '^ipn:', '^dtn://me/svc']
ACTIONS = ['deliver', 'forward', 'delete']
DESTS = [['dtn', '//a/'], ['dtn', '//a/x'], ['dtn', '//b/y'], ['ipn', 1, 2], ['ipn', 2, 1], ['dtn', '//me/'],
         ['dtn', '//me/svc'], ['dtn', '//zzz/q'], ['dtn', '//me/safe'], ['dtn', '//me/sand'], ['ipn', 100, 1],
         # (endpoints that also occur as sources: a node this one has heard from - e.g. through the SAND neighbour
         # group - is routed to like any other destination)
         ['dtn', '//src1/'], ['ipn', 9, 1]]
# endpoints that the SAFE and SAND applications of the node register for themselves (their own routing steps
# claim these destinations, as the administrative application claims the node ID)
APPS = {'safe': {'endpoint': 'dtn://me/safe'}, 'sand': {'endpoint': 'dtn://me/sand'}}
APP_DESTS = {'dtn://me/safe': 'safe', 'dtn://me/sand': 'sand', 'ipn:100.1': 'sand'}
SOURCES = [['dtn', '//src1/'], ['dtn', '//src2/'], ['ipn', 9, 1], ['dtn', '//me/']]


def prepare():
    boot.bp()


def budgets(tier):
    if tier == 'quick':
        return dict(shards=16, examples=100)
    return dict(shards=16, examples=7500, deadline_s=3000)


@st.composite
def bundle_specs(draw, bases=(0, 1, 2, 3), dests=None):
    ''' [src_idx, time, seq, frag(None|[off,total]), dest_idx, flags-extra] '''
    base = draw(st.sampled_from(bases))
    pool = [(0, 1000, 0), (0, 1000, 1), (1, 1000, 0), (2, 77, 5)]
    src, tval, seq = pool[base]
    frag = None
    variant = draw(st.sampled_from(['same', 'same', 'src', 'time', 'seq', 'frag', 'frag-off', 'frag-len', 'own', 'huge-time']))
    if variant == 'src':
        src = (src + 1) % 3
    elif variant == 'time':
        tval += 1
    elif variant == 'seq':
        seq += 1
    elif variant == 'frag':
        frag = [0, 10]
    elif variant == 'frag-off':
        frag = [5, 10]
    elif variant == 'frag-len':
        frag = [0, 10, 5]      # same offset, shorter payload: a different fragment
    elif variant == 'own':
        src = 3
    elif variant == 'huge-time':
        tval = 2 ** 64 - 1 - base
    rpt = draw(st.sampled_from([0, 0, 1]))
    # a copy damaged in transit (payload octet changed, CRC left as it was): dropped without trace, so a later intact
    # copy of the same identity is still new
    damaged = draw(st.sampled_from([0, 0, 0, 0, 1]))
    dest = draw(st.integers(0, len(DESTS) - 1) if dests is None else st.sampled_from(dests))
    return [src, tval, seq, frag, dest, rpt, damaged]


@st.composite
def focused_histories(draw):
    ''' Histories around one identity and few destinations: its fragments (same offset with different lengths, other
    offsets), repeats and one-component look-alikes meet each other much more often than in the free histories. '''
    base = draw(st.integers(0, 3))
    dests = draw(st.lists(st.integers(0, len(DESTS) - 1), min_size=1, max_size=2, unique=True))
    return draw(st.lists(bundle_specs(bases=(base,), dests=dests), min_size=3, max_size=10))


def strategy(tier):
    routes = st.lists(st.tuples(st.integers(0, len(PATTERNS) - 1), st.sampled_from(ACTIONS)).map(list), max_size=5)
    single = st.fixed_dictionaries({'routes': routes, 'bundles': st.lists(bundle_specs(), min_size=3, max_size=14)})
    focused = st.fixed_dictionaries({'routes': routes, 'bundles': focused_histories()})
    from vlib import stack_world as sw
    stack = sw.cases(netfault=True)
    return st.one_of(single, single, focused, stack)


def pinned_cases():
    yield 'repeat-and-lookalike', {'routes': [[0, 'deliver'], [2, 'forward'], [3, 'delete']],
                                   'bundles': [[0, 1000, 0, None, 0, 1], [0, 1000, 0, None, 0, 1], [0, 1000, 1, None, 1, 0],
                                               [3, 1000, 0, None, 0, 0], [1, 1000, 0, None, 3, 0], [0, 1001, 0, None, 5, 0],
                                               [0, 1000, 0, [0, 10], 2, 0], [0, 1000, 0, [5, 10], 2, 0]]}
    yield 'same-offset-other-length', {'routes': [[0, 'deliver'], [2, 'forward'], [3, 'delete']],
                                       'bundles': [[0, 1000, 0, [0, 10], 2, 0, 0], [0, 1000, 0, [0, 10, 5], 2, 0, 0],
                                                   [0, 1000, 0, [0, 10], 2, 0, 0], [0, 1000, 0, [0, 10, 5], 3, 1, 0]]}
    yield 'stack-reconnect', {'kind': 'stack', 'keepalive': 0, 'ops': [['send', 1, 3, True, 0], ['cut', 2], ['send', 1, 3, True, 0],
                                                                     ['close', 3], ['send', 1, 3, True, 1]]}
    for fault in ('dup', 'dup-late', 'reverse-dup'):
        for hops in (['udpcl', 'btpu'], ['btpu', 'udpcl']):
            yield 'stack-netfault-%s-%s' % (fault, hops[0]), {
                'kind': 'stack', 'keepalive': 0, 'hops': hops, 'umtu': 100, 'emtu': 100, 'rmtu': None, 'size': 300, 'netfault': fault,
                'ops': [['send', 1, 3, True, 1], ['send', 3, 1, False, 0], ['send', 1, 3, True, 0], ['wait', 1000], ['send', 3, 2, True, 1]]}
    yield 'damaged-then-intact', {'routes': [[2, 'deliver']], 'bundles': [[0, 1000, 0, None, 0, 1, 1], [0, 1000, 0, None, 0, 1, 0],
                                                                       [0, 1000, 0, None, 0, 1, 0]]}


def build(spec):
    from vlib import ref9171 as r
    src, tval, seq, frag, dest, rpt = spec[:6]
    flags = 0
    if frag is not None:
        flags |= r.FLAG_FRAGMENT
    if rpt:
        flags |= r.FLAG_RPT_RECEPTION | r.FLAG_RPT_DELIVERY | r.FLAG_RPT_FORWARD | r.FLAG_RPT_DELETION
    pri = dict(version=7, flags=flags, crc_type=1, dest=DESTS[dest % len(DESTS)], src=SOURCES[src % len(SOURCES)],
               rpt=['dtn', '//reports/'] if rpt else ['dtn', 'none'], ts=[int(tval), int(seq)], lifetime=3600000,
               frag=list(frag[:2]) if frag is not None else None)
    plen = frag[2] if frag is not None and len(frag) > 2 else 7
    return {'primary': pri, 'blocks': [dict(type=1, num=1, flags=0, crc_type=2, data=b'payload'[:plen].hex())]}


def ident_of(bundle):
    pri = bundle['primary']
    ident = (tuple(pri['src']), pri['ts'][0], pri['ts'][1])
    if pri['frag'] is not None:
        # RFC 9171: a fragment is identified by its offset and its own payload length
        ident += (pri['frag'][0], len(bundle['blocks'][-1]['data']) // 2)
    return ident


def execute_stack(case):
    ''' Three whole nodes in a line (n1 - n2 - n3), each a real BP agent bound through the real bp.cla adaptor to a
    real TCPCL agent of its own (virtual bus, simulated network).  Bundles are originated at n1 / n3, sessions are
    terminated or closed in between and re-made on demand.  Judged from the octets of the TCP connections: a bundle
    that n2 received is transmitted to its next hop at most once, whatever happens to the sessions; and from the
    recorder: each bundle is delivered at most once, and only at its destination. '''
    from vlib import stack_world as sw, ref9171 as r
    out = Outcome()
    world, info = sw.drive(case, out)
    try:
        cut_after_traffic, resend_after_cut = info['cut_after_traffic'], info['resend_after_cut']
        if not world.pump():
            out.label('not-quiescent')
        world.advance(1000)
        # every bundle on every hop, from the wire
        seen_on_hop = {}
        for xfer in world.transfers() + world.udp_bundles() + world.btpu_bundles():
            if not xfer['complete']:
                out.label('incomplete-transfer')
                continue
            try:
                dec = r.decode(xfer['data'])
            except Exception as err:
                out.fail('wire-undecodable', 'a transfer n%s -> n%s does not decode as a bundle: %s' % (xfer['src'], xfer['dst'], err))
                continue
            pri = dec['primary']
            ident = (tuple(pri['src']), pri['ts'][0], pri['ts'][1])
            if pri['frag'] is not None:
                ident += (pri['frag'][0], len(dec['blocks'][-1]['data']) // 2)
            seen_on_hop.setdefault((xfer['src'], xfer['dst'], ident), []).append(xfer['link'])
        for (src, dst, ident), links in sorted(seen_on_hop.items(), key=repr):
            out.count('hop-transmissions')
            if len(links) > 1:
                own = r.eid_text(list(ident[0])).startswith('dtn://n%d/' % src)
                if own:
                    out.count('originated-bundle-transmitted-again')
                else:
                    out.fail('forwarded-twice', 'n%d forwarded the bundle %s to n%d %d times (on connections %s): ops %s'
                             % (src, ident, dst, len(links), links, case['ops']))
        for index, host in world.hosts.items():
            counts = {}
            for rec in host.records():
                ident = (tuple(r.eid_parts(rec['source'])) if hasattr(r, 'eid_parts') else rec['source'], rec['ts'][0], rec['ts'][1])
                counts[(rec['source'], rec['ts'])] = counts.get((rec['source'], rec['ts']), 0) + 1
                if not rec['dest'].startswith('dtn://n%d/' % index):
                    out.fail('delivered-elsewhere', 'n%d delivered a bundle for %s' % (index, rec['dest']))
            for key, num in counts.items():
                out.count('deliveries')
                if num > 1:
                    out.fail('delivered-twice', 'n%d delivered bundle %s %d times: ops %s' % (index, key, num, case['ops']))
        for esc in world.escapes():
            # not judged: C10 says nothing about the adaptor's bookkeeping of contacts that come and go
            out.count('stack-escape:%s@%s' % (esc.exc_type, esc.frame))
        out.label('stack')
        if cut_after_traffic:
            out.label('stack:session-ended-after-traffic')
        out.nontrivial = cut_after_traffic and resend_after_cut
        if out.nontrivial:
            out.label('stack:send-after-session-ended')
        # impaired datagram networks: the convergence layer may hand one bundle to the BP agent twice (a duplicated
        # UDPCL datagram or BTP-U frame, a transfer whose segments all arrive again) - the BP agent's seen-set decides
        if world.net_duplicated:
            out.label('stack:datagrams-duplicated')
            out.count('datagrams-duplicated', world.net_duplicated)
        if world.net_reordered:
            out.label('stack:datagrams-reordered')
        handed_twice = 0
        for host in world.hosts.values():
            datas = [data for _cl, data in host.handed]
            handed_twice += len(datas) - len(set(datas))
        if handed_twice:
            out.label('stack:cl-handed-a-bundle-twice')
            out.count('cl-handed-a-bundle-twice', handed_twice)
            out.nontrivial = True
    finally:
        world.close()
    return out


def execute(case):
    if case.get('kind') == 'stack':
        return execute_stack(case)
    from vlib import bp_world as bw, ref9171 as r
    out = Outcome()
    bw.reset()
    routes = [(PATTERNS[p % len(PATTERNS)], a) for p, a in case['routes']]
    node = bw.Node(NODE, rx_routes=routes, tx_routes=[('.*', 'dtn://next/', None)], apps=APPS, strict_routes=False)
    finishes = []
    orig_finish = node.agent._finish_bundle

    def finish(ctr):
        finishes.append((ctr.bundle_ident(), sorted(ctr.actions), ctr.status_reason))
        return orig_finish(ctr)
    node.agent._finish_bundle = finish

    seen = set()
    has_repeat = has_lookalike = has_multi = has_damaged = False
    base_idents = set()
    for step, spec in enumerate(case['bundles']):
        bundle = build(spec)
        ident = ident_of(bundle)
        dest_text = r.eid_text(bundle['primary']['dest'])
        src_text = r.eid_text(bundle['primary']['src'])
        # reference model
        matching = [(pat, act) for pat, act in routes if re.match(pat, dest_text)]
        if len(set(a for _p, a in matching)) >= 2:
            has_multi = True
        wire = r.encode(bundle)
        damaged = len(spec) > 6 and bool(spec[6])
        if damaged:
            pdata = bytes.fromhex(bundle['blocks'][-1]['data'])
            pos = wire.rfind(pdata)
            wire = wire[:pos] + bytes([wire[pos] ^ 0x01]) + wire[pos + 1:]
            has_damaged = True
        if damaged:
            expect = 'dropped'
        elif src_text == NODE:
            expect = 'ignored'
        elif ident in seen:
            expect = 'ignored'
            has_repeat = True
        else:
            if any(i[:1] == ident[:1] or i[1:3] == ident[1:3] for i in seen if i != ident):
                has_lookalike = True
            seen.add(ident)
            if dest_text == NODE:
                expect = 'deliver'
            elif dest_text in APP_DESTS:
                expect = 'app'
            elif matching:
                expect = matching[0][1]
            else:
                expect = 'none'
        n_fin, n_rec, n_sent, n_app = len(finishes), len(node.records(False)), len(node.sent()), len(node.app_records())
        err = node.receive(wire)
        new_app = node.app_records()[n_app:]
        # the SAFE / SAND applications of the node consume a bundle only when it is new and addressed to them
        allowed_app = APP_DESTS.get(dest_text) if expect == 'app' and bundle['primary']['frag'] is None else None
        for rec in new_app:
            out.count('consumed-by:' + rec['app'])
            if rec['app'] != allowed_app:
                out.fail('consumed-by-application:%s:%s' % (rec['app'], expect if expect in ('dropped', 'ignored', 'none', 'app') else 'routed'),
                         'the %s application consumed a bundle for %s (expected handling: %s) (step %d, routes %s)'
                         % (rec['app'], dest_text, expect, step, routes))
        if len(new_app) > 1:
            out.fail('consumed-twice', 'one received bundle was consumed %d times by applications %s (step %d)'
                     % (len(new_app), [x['app'] for x in new_app], step))
        new_fin = finishes[n_fin:]
        new_rec = node.records(False)[n_rec:]
        new_sent = [r.decode(x) for x in node.sent()[n_sent:]]
        forwarded = [d for d in new_sent if not d['primary']['flags'] & r.FLAG_ADMIN]
        reports = [d for d in new_sent if d['primary']['flags'] & r.FLAG_ADMIN]
        delivered = [x for x in new_rec if x['deliver'] and not x['fragment']]
        where = 'step %d %s dest %s src %s (routes %s)' % (step, ident, dest_text, src_text, routes)
        is_frag = bundle['primary']['frag'] is not None
        if expect == 'dropped':
            # (an exception out of the receive callback also counts as dropped: the CL adaptor swallows it)
            if new_fin or delivered or forwarded or reports or new_rec:
                out.fail('damaged-copy-processed', 'a copy with a failing CRC was acted on: finish %s, delivered %d, forwarded %d, '
                         'reports %d (%s)' % (new_fin, len(delivered), len(forwarded), len(reports), where))
            out.label('damaged-copy')
            if ident not in seen:
                out.label('damaged-before-intact')
            continue
        if err is not None:
            out.fail('receive-raises:%s' % type(err).__name__, 'receiving a well-formed bundle raised %s: %s (%s)'
                     % (type(err).__name__, err, where))
            continue
        if expect == 'ignored':
            if new_fin or delivered or forwarded or reports or new_rec:
                kind = 'own-source' if src_text == NODE else 'repeat'
                out.fail('processed-again:%s' % kind, '%s bundle was acted on: finish %s, delivered %d, forwarded %d, reports %d (%s)'
                         % (kind, new_fin, len(delivered), len(forwarded), len(reports), where))
            continue
        fin_actions = set()
        for _i, acts, _reason in new_fin:
            fin_actions |= set(acts)
        if expect == 'app':
            # claimed by an application's own routing step: only at-most-once and "nobody else gets it" are judged
            out.label('expect:app')
            if forwarded:
                out.fail('wrong-action', 'a bundle for an application endpoint of the node was forwarded (%s)' % where)
            continue
        if expect == 'deliver':
            if is_frag:
                out.label('fragment-deliver-unjudged')
                if forwarded:
                    out.fail('wrong-action', 'fragment routed deliver was forwarded (%s)' % where)
                continue
            if 'deliver' not in fin_actions or 'forward' in fin_actions or 'delete' in fin_actions:
                out.fail('wrong-action', 'expected deliver, agent recorded %s (%s)' % (sorted(fin_actions), where))
            if dest_text != NODE and len(delivered) != 1:
                out.fail('delivery-count', 'expected one application delivery, saw %d (%s)' % (len(delivered), where))
            if forwarded:
                out.fail('delivered-and-forwarded', 'a delivered bundle was also forwarded (%s)' % where)
        elif expect == 'forward':
            if delivered:
                out.fail('wrong-action', 'expected forward, but an application received the bundle (%s)' % where)
            same = [d for d in forwarded if d['primary']['src'] == bundle['primary']['src']
                    and d['primary']['ts'] == bundle['primary']['ts'] and d['primary']['dest'] == bundle['primary']['dest']]
            if len(same) != 1 or len(forwarded) != 1:
                out.fail('forward-count', 'expected exactly one forwarded copy, saw %d (%d bundles to the CL; finish %s) (%s)'
                         % (len(same), len(forwarded), new_fin, where))
            if 'deliver' in fin_actions or 'delete' in fin_actions:
                out.fail('wrong-action', 'expected forward, agent recorded %s (%s)' % (sorted(fin_actions), where))
        elif expect == 'delete':
            if delivered or forwarded:
                out.fail('wrong-action', 'expected delete, delivered %d forwarded %d (%s)' % (len(delivered), len(forwarded), where))
            if 'delete' not in fin_actions:
                out.fail('wrong-action', 'expected delete, agent recorded %s (%s)' % (sorted(fin_actions), where))
        else:
            if delivered or forwarded:
                out.fail('no-route-acted', 'no route matches but delivered %d forwarded %d (%s)' % (len(delivered), len(forwarded), where))
        out.label('expect:' + expect)
    for esc in node.escapes():
        out.fail('escape:%s@%s' % (esc.exc_type, esc.frame), 'exception escaped a main-loop callback: %s: %s' % (esc.exc_type, esc.exc_msg[:120]))
    out.nontrivial = has_repeat and has_lookalike and has_multi
    if has_repeat:
        out.label('repeat')
    if has_lookalike:
        out.label('look-alike')
    if has_multi:
        out.label('multi-match')
    return out
