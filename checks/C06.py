''' C06 - Fragments reassemble to the original bundle once, in any arrival order. '''
import itertools
import random

from hypothesis import strategies as st

from vlib import boot
from vlib.engine import Outcome

PROPERTY = 'C06'
RULE = ('An original bundle (payload 0..4000 octets, extension blocks with and without the replicate flag, CRC types) is '
        'cut into fragments by a generated list of ranges covering [0,total): uniform, uneven, overlapping, containing '
        'exact duplicates; the fragments are built by the independent RFC 9171 encoder (offset-0 fragment carries all '
        'blocks, the others the replicate ones) or, as second source, by the repository own fragmentation step.  They '
        'arrive at a real destination agent in a generated permutation with repeats, interleaved with the fragments of '
        'a second bundle that differs only in source or only in creation timestamp / sequence number.  ALL permutations '
        'of enumerated fragmentations with <= 4 (quick) / <= 5 (thorough) fragments, with one duplicate inserted at every '
        'position, are enumerated.  Oracle = interval coverage model per bundle identity: no application delivery while '
        'an octet is missing; exactly one delivery, at the arrival that completes coverage, not flagged fragment, payload '
        '== original, extension blocks == those of the offset-0 fragment; nothing afterwards; the two interleaved bundles '
        'never mix.  (secured) a real source with a BIB or BCB policy over the payload and a route MTU emits fragments; a real '
        'destination holding the key receives them in several orders: nothing early, exactly one delivery, payload == the '
        'original plaintext (all primary / payload CRC types).  (stack) three whole nodes, every hop with a CL and a route MTU of '
        'its own, optionally over impaired datagram networks (every UDP datagram / Ethernet frame twice, the whole batch twice, reversed, '
        'reversed and again in order, rotated): the destination delivers each bundle at most once, with the original payload and flags.  Non-trivial = >= 3 fragments arriving in an order different from offset order; distinct by SHA-1.')
SHRINK_KEYS = ('arrival',)
SHRINK_KINDS = ('list',)
ASSUMPTIONS = [
    'fragments of one bundle agree on the total length and carry consistent data (they are cut from one payload)',
    'every generated fragment has a non-empty range unless the payload itself is empty',
]
EXHAUSTIVE_PART = 'all arrival permutations (plus one duplicate at every position) of the enumerated fragmentations with <= 4/5 fragments'

NODE = 'dtn://dst/'


def prepare():
    boot.bp()


def budgets(tier):
    if tier == 'quick':
        return dict(shards=16, examples=40)
    return dict(shards=16, examples=6000, deadline_s=3000)


@st.composite
def fragmentations(draw, total):
    ''' List of [off, end) covering [0,total). '''
    if total == 0:
        return [[0, 0]]
    kind = draw(st.sampled_from(['uniform', 'uneven', 'overlap', 'overlap', 'nested']))
    n = draw(st.integers(1, 6))
    cuts = sorted(set(draw(st.lists(st.integers(1, max(1, total - 1)), min_size=0, max_size=n - 1))))
    if kind == 'uniform':
        step = max(1, total // n)
        cuts = list(range(step, total, step))
    bounds = [0] + [c for c in cuts if 0 < c < total] + [total]
    ranges = [[bounds[i], bounds[i + 1]] for i in range(len(bounds) - 1)]
    if kind in ('overlap', 'nested'):
        for rng in ranges:
            if draw(st.booleans()):
                rng[1] = min(total, rng[1] + draw(st.integers(1, max(1, total // 3))))
            if draw(st.booleans()):
                rng[0] = max(0, rng[0] - draw(st.integers(1, max(1, total // 3))))
    if kind == 'nested' and total >= 2:
        ranges.append([0, draw(st.integers(1, total))])
    return ranges


@st.composite
def cases(draw):
    total = draw(st.one_of(st.sampled_from([0, 1, 2, 10, 24, 256, 1000, 4000]), st.integers(0, 300)))
    ranges = draw(fragmentations(total))
    other_total = draw(st.sampled_from([total, max(1, total // 2), 7]))
    other_ranges = draw(fragmentations(other_total)) if draw(st.booleans()) else []
    items = [[0, i] for i in range(len(ranges))] + [[1, i] for i in range(len(other_ranges))]
    arrival = draw(st.permutations(items))
    arrival = list(arrival)
    for _ in range(draw(st.integers(0, 3))):
        if arrival:
            pos = draw(st.integers(0, len(arrival)))
            arrival.insert(pos, list(draw(st.sampled_from(items))))
    return {'total': total, 'ranges': ranges, 'other': {'variant': draw(st.sampled_from(['source', 'time', 'seq'])),
                                                        'total': other_total, 'ranges': other_ranges},
            'arrival': [list(a) for a in arrival], 'pcrc': draw(st.sampled_from([0, 1, 2])), 'ycrc': draw(st.sampled_from([0, 1, 2])),
            'ext': draw(st.lists(st.booleans(), max_size=3)), 'source': draw(st.sampled_from(['ref', 'ref', 'repo'])),
            'seed': draw(st.integers(0, 99)),
            # bundle processing control flags of the original (some assigned ones, and reserved / unassigned bits, which
            # a node carries through unchanged): the reassembled bundle has them all again
            # (0x04 "must not be fragmented" on fragments: nothing makes such fragments here, another node's may carry it)
            'flags': draw(st.sampled_from([0, 0, 0x40, 0x20, 0x080000, 0x200040, (1 << 40) | 0x40, 0x2000, 0x04, 0x44]))}


def stack_cases():
    ''' Whole nodes (vlib/stack_world.py): n1 originates, n2 forwards, n3 reassembles; each hop has its own CL and
    its own route MTU, so fragments made at n1 may be fragmented again at n2. '''
    return st.fixed_dictionaries({
        'kind': st.just('stack'),
        'hops': st.lists(st.sampled_from(['tcpcl', 'udpcl', 'btpu']), min_size=2, max_size=2),
        'rmtu': st.lists(st.sampled_from([None, 120, 150, 200, 400]), min_size=2, max_size=2),
        'umtu': st.sampled_from([None, 100, 300]), 'emtu': st.sampled_from([None, 100]),
        'sizes': st.lists(st.sampled_from([8, 200, 300, 500, 1000]), min_size=1, max_size=3),
        'flags': st.sampled_from([0, 0, 0x40, 0x20, 0x080000]),
        'pcrc': st.sampled_from([1, 2]), 'ycrc': st.sampled_from([0, 1, 2]),
        'back': st.booleans(),
        # impaired datagram networks (vlib/stack_world.py _release): fragments and CL segments arrive twice and / or out of order
        'netfault': st.sampled_from([None, None, 'dup', 'dup-late', 'reverse', 'reverse-dup', 'rotate']),
    })


def strategy(tier):
    return st.one_of(cases(), cases(), cases(), stack_cases())


def enumerate_cases(tier):
    for case in secured_cases(tier):
        yield case
    for total in (2 ** 64 - 1, 2 ** 63, 2 ** 62 + 5):
        for pcrc in (0, 1):
            yield {'kind': 'huge-total', 'declared_total': total, 'plen': 100, 'pcrc': pcrc}
    # payloads above 64 KiB whose later fragments arrive first
    for total, ranges in ((100000, [[0, 25000], [25000, 50000], [50000, 75000], [75000, 100000]]), (90000, [[0, 30000], [30000, 89999], [89999, 90000]])):
        for arrival in ([len(ranges) - 1] + list(range(len(ranges) - 1)), list(reversed(range(len(ranges)))), list(range(len(ranges)))):
            yield {'total': total, 'ranges': ranges, 'other': {'variant': 'seq', 'total': 7, 'ranges': []}, 'pcrc': 1, 'ycrc': 2,
                   'ext': [True, False], 'source': 'ref', 'seed': 1, 'arrival': [[0, i] for i in arrival]}
    limit = 4 if tier == 'quick' else 5
    fragsets = [
        (10, [[0, 5], [5, 10]]), (10, [[0, 3], [3, 7], [7, 10]]), (12, [[0, 3], [3, 6], [6, 9], [9, 12]]),
        (10, [[0, 6], [4, 10]]), (10, [[0, 5], [0, 10], [5, 10]]), (9, [[0, 9], [2, 4]]), (12, [[0, 4], [2, 8], [6, 12]]),
        (1, [[0, 1]]), (20, [[0, 5], [0, 10], [10, 20]]), (20, [[10, 20], [0, 10], [0, 5], [5, 10]]),
        (15, [[0, 3], [3, 6], [6, 9], [9, 12], [12, 15]]),
    ]
    for total, ranges in fragsets:
        if len(ranges) > limit:
            continue
        idx = list(range(len(ranges)))
        for perm in itertools.permutations(idx):
            base = {'total': total, 'ranges': ranges, 'other': {'variant': 'seq', 'total': 7, 'ranges': []},
                    'pcrc': 1, 'ycrc': 2, 'ext': [True, False], 'source': 'ref', 'seed': 1}
            yield dict(base, arrival=[[0, i] for i in perm])
            yield dict(base, arrival=[[0, i] for i in perm], flags=0x200040)
            for pos in range(len(perm) + 1):
                for dup in idx:
                    arr = [[0, i] for i in perm]
                    arr.insert(pos, [0, dup])
                    yield dict(base, arrival=arr)


def pinned_cases():
    yield 'stack-refragmented', {'kind': 'stack', 'hops': ['tcpcl', 'udpcl'], 'rmtu': [200, 120], 'umtu': 100, 'sizes': [500, 8, 300],
                                 'flags': 0x080000, 'pcrc': 1, 'ycrc': 2, 'back': True}
    for fault in ('dup', 'reverse', 'reverse-dup', 'rotate'):
        for hops in (['udpcl', 'btpu'], ['btpu', 'udpcl']):
            yield 'stack-netfault-%s-%s' % (fault, hops[0]), {
                'kind': 'stack', 'hops': hops, 'rmtu': [200, 150], 'umtu': 100, 'emtu': 100, 'sizes': [500, 300], 'flags': 0, 'pcrc': 1,
                'ycrc': 2, 'back': True, 'netfault': fault}
    yield 'same-offset-different-length', {'total': 20, 'ranges': [[0, 5], [0, 10], [10, 20]],
                                          'other': {'variant': 'seq', 'total': 7, 'ranges': []},
                                          'arrival': [[0, 0], [0, 1], [0, 2]], 'pcrc': 1, 'ycrc': 2, 'ext': [True], 'source': 'ref', 'seed': 1}
    yield 'interleaved', {'total': 10, 'ranges': [[0, 4], [4, 10]], 'other': {'variant': 'source', 'total': 10, 'ranges': [[0, 5], [5, 10]]},
                          'arrival': [[1, 1], [0, 1], [1, 0], [0, 0]], 'pcrc': 2, 'ycrc': 1, 'ext': [False, True], 'source': 'ref', 'seed': 2}


def make_original(case, which):
    from vlib import ref9171 as r, strat9174
    total = case['total'] if which == 0 else case['other']['total']
    src, ts = ['dtn', '//src/'], [5000, 7]
    if which == 1:
        variant = case['other']['variant']
        if variant == 'source':
            src = ['dtn', '//src2/']
        elif variant == 'time':
            ts = [5001, 7]
        else:
            ts = [5000, 8]
    blocks = []
    for idx, repl in enumerate(case.get('ext', [])):
        blocks.append(dict(type=192 + idx, num=2 + idx, flags=1 if repl else 0, crc_type=(idx % 3),
                           data=strat9174.content(4 + idx, 50 + idx + which).hex()))
    blocks.append(dict(type=1, num=1, flags=0, crc_type=case['ycrc'],
                       data=strat9174.content(total, case.get('seed', 0) * 2 + which).hex()))
    pri = dict(version=7, flags=int(case.get('flags') or 0), crc_type=case['pcrc'], dest=['dtn', '//dst/svc'], src=src, rpt=['dtn', 'none'], ts=ts,
               lifetime=3600000, frag=None)
    return {'primary': pri, 'blocks': blocks}


def cut(original, rng):
    ''' Reference fragment of ``original`` for payload range [off, end). '''
    from vlib import ref9171 as r
    off, end = rng
    payload = bytes.fromhex(original['blocks'][-1]['data'])
    pri = dict(original['primary'], flags=original['primary']['flags'] | r.FLAG_FRAGMENT, frag=[off, len(payload)])
    ext = original['blocks'][:-1] if off == 0 else [b for b in original['blocks'][:-1] if b['flags'] & 1]
    blocks = [dict(b) for b in ext] + [dict(original['blocks'][-1], data=payload[off:end].hex())]
    return {'primary': pri, 'blocks': blocks}


def secured_cases(tier):
    ''' A bundle that got a BIB or BCB over its payload at the source and was then fragmented on its way. '''
    for policy, pcrc, ycrc, plen, nperm in itertools.product(('bib', 'bcb'), (0, 1, 2), (0, 1), (150, 500), range(3 if tier == 'quick' else 8)):
        yield {'kind': 'secured', 'policy': policy, 'pcrc': pcrc, 'ycrc': ycrc, 'plen': plen, 'mtu_extra': 60, 'order_seed': nperm, 'seed': 3}


def execute_secured(case):
    ''' The first fragment carries the security block made over the whole payload; the reassembled bundle is the
    original again, so its security block verifies and the bundle (payload == original) is delivered exactly once. '''
    from vlib import bp_world as bw, ref9171 as r, bpconv, bpsec_util as bu, strat9174
    from bp.util import BundleContainer
    out = Outcome()
    bw.reset()
    policy = case['policy']
    payload = strat9174.content(int(case['plen']), int(case['seed']))
    bundle = {'primary': dict(version=7, flags=0, crc_type=case['pcrc'], dest=['dtn', '//dst/svc'], src=['dtn', '//srcnode/app'],
                              rpt=['dtn', 'none'], ts=[789004000000, 1 + int(case['seed'])], lifetime=3600000, frag=None),
              'blocks': [dict(type=193, num=2, flags=1, crc_type=0, data='0a0b'),
                         dict(type=1, num=1, flags=0, crc_type=case['ycrc'], data=payload.hex())]}
    src = bw.Node('dtn://srcnode/', tx_routes=[('.*', 'dtn://next/', None)], name='source')
    dst = bw.Node(NODE, rx_routes=[('^dtn://dst/', 'deliver')], tx_routes=[('.*', 'dtn://next/', None)], accept_after_verify=True, name='dst')
    if policy == 'bib':
        for node in (src, dst):
            bu.give_key(node, 'k-mac-1', 5, 'mac')
        bu.add_policy(src, 'bib', 'k-mac-1', [1])
    else:
        for node in (src, dst):
            bu.give_key(node, 'k-enc-1', 3, 'enc')
        bu.add_policy(src, 'bcb', 'k-enc-1', [1], ivs=[b'\x21' * 12])
    empty = dict(bundle, blocks=bundle['blocks'][:-1] + [dict(bundle['blocks'][-1], data='')])
    src.set_mtu(0, len(r.encode(empty)) + 110 + int(case.get('mtu_extra', 60)))
    err = src.send(BundleContainer(bpconv.to_repo(bundle)))
    wires = list(src.sent())
    decs = []
    for wire in wires:
        try:
            decs.append(r.decode(wire))
        except r.RefError as exc:
            out.fail('source-not-wellformed', 'the source emitted a malformed bundle: %s' % exc)
            return out
    out.label('secured:' + policy, 'pcrc:%d' % case['pcrc'])
    if err is not None or len(wires) < 2 or not all(d['primary']['frag'] is not None for d in decs):
        out.label('secured-not-fragmented')
        return out
    sec_type = 11 if policy == 'bib' else 12
    if not any(b['type'] == sec_type for b in decs[0]['blocks']):
        out.fail('secured-first-fragment-without-security-block', 'the fragment at offset 0 carries no %s' % policy)
        return out
    order = list(range(len(wires)))
    random.Random(int(case.get('order_seed', 0))).shuffle(order)
    if int(case.get('order_seed', 0)) == 0:
        order = list(range(len(wires)))
    fin = []
    orig = dst.agent._finish_bundle

    def finish(ctr):
        fin.append((sorted(ctr.actions), ctr.status_reason))
        return orig(ctr)
    dst.agent._finish_bundle = finish
    for pos, idx in enumerate(order):
        before = len(dst.records())
        dst.receive(wires[idx])
        now = len(dst.records())
        if pos < len(order) - 1 and now != before:
            out.fail('secured-delivered-early', 'a delivery happened with %d of %d fragments received' % (pos + 1, len(order)))
    for esc in dst.escapes():
        out.fail('escape:%s@%s' % (esc.exc_type, esc.frame), 'exception escaped a main-loop callback: %s: %s' % (esc.exc_type, esc.exc_msg[:120]))
    recs = dst.records()
    where = '%s over the payload, primary CRC type %d, %d fragments, arrival %s' % (policy.upper(), case['pcrc'], len(wires), order)
    if len(recs) != 1:
        out.fail('secured-not-delivered' if not recs else 'secured-delivered-twice',
                 'all fragments of a bundle with a valid security block arrived, %d deliveries (%s; end of processing %s)'
                 % (len(recs), where, fin[-1:] if fin else None))
        return out
    if recs[0]['payload'] != payload:
        out.fail('secured-payload-differs', 'the delivered payload (%d octets) is not the original %d octets (%s)'
                 % (len(recs[0]['payload']), len(payload), where))
    out.nontrivial = order != sorted(order) and len(order) >= 3
    return out


def execute_huge_total(case):
    ''' A single, well-formed first fragment that declares an enormous total length: whatever the agent does with it,
    it must not treat it as a delivered bundle (nothing handed to an application, no delivery recorded or reported). '''
    from vlib import bp_world as bw, ref9171 as r, strat9174
    out = Outcome()
    bw.reset()
    node = bw.Node(NODE, rx_routes=[('^dtn://dst/', 'deliver')], tx_routes=[('.*', 'dtn://next/', None)])
    total = int(case['declared_total'])
    data = strat9174.content(int(case.get('plen', 100)), 1)
    frag = {'primary': dict(version=7, flags=r.FLAG_FRAGMENT | r.FLAG_RPT_DELIVERY | r.FLAG_RPT_DELETION, crc_type=case.get('pcrc', 1),
                            dest=['dtn', '//dst/svc'], src=['dtn', '//src/'], rpt=['dtn', '//reports/'], ts=[5000, 7],
                            lifetime=3600000, frag=[0, total]),
            'blocks': [dict(type=1, num=1, flags=0, crc_type=2, data=data.hex())]}
    fin = []
    orig = node.agent._finish_bundle

    def finish(ctr):
        fin.append(sorted(ctr.actions))
        return orig(ctr)
    node.agent._finish_bundle = finish
    node.receive(r.encode(frag))
    out.label('huge-total')
    out.nontrivial = True
    if node.records(False):
        out.fail('huge-total-reached-application', 'a lone fragment declaring a total of %d octets reached an application step' % total)
    if any('deliver' in acts for acts in fin):
        out.fail('fragment-recorded-as-delivered', 'a lone fragment (%d of %d declared octets) was recorded as delivered: %s'
                 % (len(data), total, fin))
    for wire in node.sent():
        try:
            dec = r.decode(wire)
            if dec['primary']['flags'] & r.FLAG_ADMIN:
                body = r.parse_status_report(r.payload_block(dec)['data'])
                if body['status'][2][0]:
                    out.fail('fragment-reported-delivered', 'a status report asserts delivery of a bundle of which %d of %d octets arrived'
                             % (len(data), total))
        except r.RefError:
            pass
    return out


def execute_stack(case):
    from vlib import stack_world as sw, bpconv, ref9171 as r
    out = Outcome()
    hop12, hop23 = case['hops']
    m12, m23 = case['rmtu']
    world = sw.StackWorld([
        dict(routes=[('^dtn://n[23]/', 2, hop12, m12)], rx_routes=[('^dtn://n1/', 'deliver')]),
        dict(routes=[('^dtn://n1/', 1, hop12, m12), ('^dtn://n3/', 3, hop23, m23)],
             rx_routes=[('^dtn://n2/', 'deliver'), ('^dtn://n[13]/', 'forward')]),
        dict(routes=[('^dtn://n[12]/', 2, hop23, m23)], rx_routes=[('^dtn://n3/', 'deliver')]),
    ], udpcl_mtu=case.get('umtu'), btpu_mtu=case.get('emtu'), netfault=case.get('netfault'))
    try:
        sent = []
        for seq, size in enumerate(case['sizes'], 1):
            origin, dest = (3, 1) if case.get('back') and seq % 2 == 0 else (1, 3)
            payload = bytes((seq * 37 + i * 11) % 251 for i in range(size))
            pri = dict(version=7, flags=int(case.get('flags', 0)), crc_type=case['pcrc'], dest=['dtn', '//n%d/svc' % dest],
                       src=['dtn', '//n%d/app' % origin], rpt=['dtn', 'none'], ts=[1000, seq], lifetime=3600000, frag=None)
            bundle = {'primary': pri, 'blocks': [dict(type=1, num=1, flags=0, crc_type=case['ycrc'], data=payload.hex())]}
            err = world.hosts[origin].originate(bpconv.to_repo(bundle))
            sent.append((origin, dest, seq, payload, err))
            if seq % 2:
                world.pump()
        world.pump()
        world.advance(1000)
        # was anything fragmented on the way?  (from the wire)
        frag_hops = set()
        for xfer in world.transfers() + world.udp_bundles() + world.btpu_bundles():
            if not xfer['complete']:
                continue
            try:
                dec = r.decode(xfer['data'])
            except Exception as err:
                out.fail('wire-undecodable', 'a transfer n%s -> n%s does not decode as a bundle: %s' % (xfer['src'], xfer['dst'], err))
                continue
            if dec['primary']['frag'] is not None:
                frag_hops.add((xfer['src'], xfer['dst']))
                limit = m12 if {xfer['src'], xfer['dst']} == {1, 2} else m23
                if limit is not None and len(xfer['data']) > limit:
                    # an existing fragment is sent unchanged (C05), also over a route with a smaller MTU
                    out.label('fragment-forwarded-over-smaller-mtu')
        for origin, dest, seq, payload, err in sent:
            where = 'bundle %d (%d octets) n%d -> n%d, hops %s, route MTUs %s, UDPCL MTU %s' % (
                seq, len(payload), origin, dest, case['hops'], case['rmtu'], case.get('umtu'))
            if err is not None:
                # the origin refused (payload does not fit any fragmentation of that MTU): nothing may arrive then
                out.label('origin-refused')
            recs = [x for x in world.hosts[dest].records() if x['ts'] == (1000, seq) and x['source'] == 'dtn://n%d/app' % origin]
            if len(recs) > 1:
                out.fail('delivered-more-than-once', '%d deliveries of %s' % (len(recs), where))
            if not recs:
                if err is None:
                    out.count('not-delivered')
                    out.label('not-delivered')
                continue
            rec = recs[0]
            if rec['payload'] != payload:
                out.fail('reassembled-payload-differs', 'delivered payload (%d octets) differs from the original (%s)' % (len(rec['payload'] or b''), where))
            if rec['flags'] != int(case.get('flags', 0)):
                out.fail('reassembled-flags-differ', 'delivered bundle has flags %#x, original %#x (%s)' % (rec['flags'], int(case.get('flags', 0)), where))
            out.count('delivered-intact')
        if len(frag_hops) >= 1:
            out.label('fragmented-on-the-way')
        out.label('stack', 'stack-hops:%s+%s' % (hop12, hop23))
        if case.get('netfault'):
            out.label('stack-netfault:%s' % case['netfault'])
            if world.net_duplicated:
                out.label('stack:datagrams-duplicated')
            if world.net_reordered:
                out.label('stack:datagrams-reordered')
        out.nontrivial = bool(frag_hops) and any(x for x in sent if x[4] is None)
        for esc in world.escapes():
            out.count('stack-escape:%s@%s' % (esc.exc_type, esc.frame))
    finally:
        world.close()
    return out


def execute(case):
    if case.get('kind') == 'stack':
        return execute_stack(case)
    if case.get('kind') == 'secured':
        return execute_secured(case)
    if case.get('kind') == 'huge-total':
        return execute_huge_total(case)
    from vlib import bp_world as bw, ref9171 as r
    out = Outcome()
    bw.reset()
    node = bw.Node(NODE, rx_routes=[('^dtn://dst/', 'deliver')], tx_routes=[('.*', 'dtn://next/', None)])
    originals = [make_original(case, 0), make_original(case, 1)]
    ranges = [case['ranges'], case['other']['ranges']]
    repo_wires = None
    if case.get('source') == 'repo' and case['total'] > 0:
        # second source of fragments: the repository's own fragmentation of the same original
        from vlib import bpconv
        from bp.util import BundleContainer
        src_node = bw.Node('dtn://src/', tx_routes=[('.*', 'dtn://next/', None)], name='source')
        empty = dict(originals[0], blocks=originals[0]['blocks'][:-1] + [dict(originals[0]['blocks'][-1], data='')])
        chunk = max(1, case['total'] // max(1, len(case['ranges'])))
        src_node.set_mtu(0, len(r.encode(empty)) + 24 + chunk)
        src_node.send(BundleContainer(bpconv.to_repo(originals[0])))
        repo_wires = [w for w in src_node.sent()]
        decs = [r.decode(w) for w in repo_wires]
        if repo_wires and all(d['primary']['frag'] is not None for d in decs):
            ranges[0] = [[d['primary']['frag'][0], d['primary']['frag'][0] + len(d['blocks'][-1]['data']) // 2] for d in decs]
            out.label('source:repo')
        else:
            repo_wires = None
    if repo_wires is None:
        out.label('source:ref')
    covered = [set(), set()]
    totals = [case['total'], case['other']['total']]
    done = [False, False]
    reported_missing = [False, False]
    delivered = [0, 0]
    order_nontrivial = False
    seq0 = [a[1] for a in case['arrival'] if a[0] == 0]
    offs = [ranges[0][i][0] for i in seq0 if i < len(ranges[0])]
    if len(set(seq0)) >= 3 and offs != sorted(offs):
        order_nontrivial = True
    for step, (which, idx) in enumerate(case['arrival']):
        if which == 0 and repo_wires is not None:
            idx = idx % len(repo_wires)
        if idx >= len(ranges[which]):
            continue
        rng = ranges[which][idx]
        if which == 0 and repo_wires is not None:
            wire = repo_wires[idx]
        else:
            wire = r.encode(cut(originals[which], rng))
        n_rec = len(node.records(False))
        err = node.receive(wire)
        if err is not None:
            out.fail('receive-raises:%s' % type(err).__name__, 'receiving a fragment raised %s: %s' % (type(err).__name__, err))
            continue
        covered[which] |= set(range(rng[0], rng[1]))
        complete = len(covered[which]) == totals[which]
        new = [x for x in node.records(False)[n_rec:] if x['deliver']]
        whole = [x for x in new if not x['fragment']]
        where = 'step %d: bundle %d fragment [%d,%d) of %d, arrival %s' % (step, which, rng[0], rng[1], totals[which],
                                                                           [(a, tuple(ranges[a][i])) for a, i in case['arrival'] if i < len(ranges[a])][:10])
        for rec in whole:
            src = rec['source']
            owner = 0 if src == 'dtn://src/' and rec['ts'] == (5000, 7) else 1
            orig = originals[owner]
            if owner != which:
                out.fail('delivery-for-other-bundle', 'arrival of a fragment of bundle %d triggered a delivery of bundle %d (%s)' % (which, owner, where))
            if done[owner]:
                out.fail('delivered-twice', 'bundle %d was delivered again (%s)' % (owner, where))
            if len(covered[owner]) != totals[owner]:
                out.fail('delivered-incomplete', 'bundle %d delivered with %d of %d octets received (%s)'
                         % (owner, len(covered[owner]), totals[owner], where))
            done[owner] = True
            delivered[owner] += 1
            if rec['payload'] != bytes.fromhex(orig['blocks'][-1]['data']):
                out.fail('payload-wrong', 'reassembled payload of bundle %d differs from the original (%d vs %d octets) (%s)'
                         % (owner, len(rec['payload'] or b''), totals[owner], where))
            if rec.get('flags') is not None and rec['flags'] != orig['primary']['flags']:
                out.fail('primary-flags-changed', 'the reassembled bundle has bundle flags 0x%x, the original 0x%x (%s)'
                         % (rec['flags'], orig['primary']['flags'], where))
            want_ext = sorted((b['type'], b['num'], b['data']) for b in orig['blocks'][:-1])
            got_ext = sorted((t, n, d.hex()) for (t, n, d) in rec['blocks'] if t != 1)
            if want_ext != got_ext:
                out.fail('blocks-wrong', 'reassembled bundle carries extension blocks %s, offset-0 fragment had %s (%s)'
                         % ([(g[0], g[1]) for g in got_ext], [(w[0], w[1]) for w in want_ext], where))
        if complete and not done[which] and not whole:
            have0 = any(ranges[which][i][0] == 0 for a, i in case['arrival'][:step + 1] if a == which and i < len(ranges[which]))
            same_off = _same_offset_pair(case['arrival'][:step + 1], ranges, which)
            bucket = 'not-delivered-when-complete' + (':same-offset-fragments' if same_off else '')
            if not reported_missing[which]:
                out.fail(bucket, 'all %d octets of bundle %d have arrived but nothing was delivered (%s)' % (totals[which], which, where))
            reported_missing[which] = True
    for esc in node.escapes():
        out.fail('escape:%s@%s' % (esc.exc_type, esc.frame), 'exception escaped a main-loop callback: %s: %s' % (esc.exc_type, esc.exc_msg[:120]))
    out.nontrivial = order_nontrivial
    out.label('frags:%d' % min(len(ranges[0]), 6), 'interleaved' if ranges[1] else 'single',
              'dups' if len(case['arrival']) > len(set(map(tuple, case['arrival']))) else 'nodups')
    if any(a[1] > b[0] for a, b in zip(sorted(ranges[0]), sorted(ranges[0])[1:])):
        out.label('overlap')
    return out


def _same_offset_pair(arrival, ranges, which):
    seen = {}
    for a, i in arrival:
        if a != which or i >= len(ranges[a]):
            continue
        off, end = ranges[a][i]
        if off in seen and seen[off] != end:
            return True
        seen.setdefault(off, end)
    return False
