''' C12 - A bundle with an unverifiable security block is never delivered. '''
import copy
import itertools

from hypothesis import strategies as st

from vlib import boot
from vlib.engine import Outcome

PROPERTY = 'C12'
LEVEL = 'fault_enumeration'
RULE = ('A real destination agent (key store: right key / wrong key / no key; accept_after_verify on or off) receives a '
        'bundle built by the independent reference source that carries one or two security blocks (BIB on the payload, on '
        'an extension block or on both in either target order, BCB on the payload or on both; their own block processing control flags drawn from {0, discard-block, delete-bundle, report, replicate}) each of which is either valid or malformed in exactly one way drawn from: '
        'unknown key id, altered MAC, first / last target altered after the operation, target altered while the original content is attached inside the COSE message, unknown security context id, target number absent from the bundle, duplicate '
        'parameter ids, duplicate result ids, two results / zero results for a target, fewer results than targets, a target named twice with one genuine and one forged result (either order), '
        'parameters flag clear with a parameter list present, additional protected/unprotected header maps with a '
        'duplicate key, undecodable additional headers, unknown critical COSE header, result value that is not a COSE '
        'array, wrong COSE message tag number (known other kind, unknown), abstract security block that does not decode '
        'at all.  All single malformations x block kind x key store x acceptance are enumerated, as are all pairs (good, '
        'bad) in both orders.  Oracle = strict independent verdict (vlib/refcose.py): bad => no application step sees the '
        'bundle, no payload is released, and the deletion is recorded with a security reason (12..16) which is also the '
        'reason code of the deletion status report on the wire; good or no security block => delivered with the payload '
        'unchanged (plaintext iff a BCB was accepted), accepted blocks removed iff acceptance is configured.  '
        'Non-trivial = the malformed block reached the verification code (the bundle itself decoded); distinct by SHA-1.')
SHRINK_KEYS = ()
ASSUMPTIONS = [
    'security blocks are built by the reference source (COSE_Mac0 / COSE_Encrypt0); the installed pycose limits the kinds',
    'a bundle that does not decode at all is dropped by the receive callback and not judged here',
]
EXHAUSTIVE_PART = 'single malformation x {BIB payload, BIB extension, BIB both (2 orders), BCB payload, BCB both (2 orders)} x key store x acceptance; all (good, bad) pairs in both orders'

SEC_REASONS = {12, 13, 14, 15, 16}
MALFORMATIONS = ['none', 'wrong-kid', 'bad-tag', 'unknown-ctx', 'target-missing', 'dup-param', 'dup-result-id', 'two-results',
                 'zero-results', 'fewer-results', 'params-flag-clear', 'no-params-default-scope', 'addl-dup-keys',
                 'addl-undecodable', 'crit-header', 'result-not-array', 'result-garbage', 'wrong-tag-kind', 'unknown-tag',
                 'asb-garbage', 'asb-empty', 'addl-protected-ok', 'alter-target-0', 'alter-target-1', 'attached-payload',
                 'surplus-result', 'dup-target-bad-last', 'dup-target-bad-first']
BLOCKS = ['bib-payload', 'bib-ext', 'bcb-payload', 'bib-multi', 'bib-multi-r', 'bcb-multi', 'bcb-multi-r']
# a BIB on the payload with a BCB layered over it: the BCB covers the payload only, or (as RFC 9172 asks of a source
# whose BIB and BCB share a target) the payload and the BIB
LAYERED = ['bib+bcb', 'bib+bcb-rfc']
TARGETS = {'bib-payload': [1], 'bib-ext': [2], 'bcb-payload': [1], 'bib-multi': [2, 1], 'bib-multi-r': [1, 2],
           'bcb-multi': [2, 1], 'bcb-multi-r': [1, 2]}
KEYSTORES = ['right', 'wrong', 'none']
# 0x10 discard the block / 0x04 delete the bundle / 0x02 report if the block cannot be processed, 0x01 replicate in fragments
SECFLAGS = [0, 0, 0x10, 0x04, 0x12, 0x01]


def prepare():
    boot.bp()
    from vlib import refcose
    import os
    refcose.selftest(os.path.join(boot.REPO_SRC, 'bp', 'test', 'data'))


def budgets(tier):
    if tier == 'quick':
        return dict(shards=16, examples=20)
    return dict(shards=16, examples=4500, deadline_s=3000)


def strategy(tier):
    block = st.one_of(st.tuples(st.sampled_from(BLOCKS), st.sampled_from(MALFORMATIONS)).map(list),
                      st.tuples(st.sampled_from(LAYERED), st.sampled_from(['none', 'none', 'alter-target-0', 'wrong-kid'])).map(list))
    return st.fixed_dictionaries({
        'blocks': st.lists(block, min_size=1, max_size=2),
        'keys': st.sampled_from(KEYSTORES), 'accept': st.booleans(),
        'plen': st.sampled_from([0, 1, 20, 300]), 'seed': st.integers(0, 99),
        'pcrc': st.sampled_from([0, 1, 2]), 'bcrc': st.sampled_from([0, 1, 2]),
        # block processing control flags of the security blocks themselves (set by the security source)
        'secflags': st.sampled_from(SECFLAGS),
    })


def enumerate_cases(tier):
    base = {'plen': 9, 'seed': 1, 'pcrc': 1, 'bcrc': 0}
    for blk, mal, keys, accept in itertools.product(BLOCKS, MALFORMATIONS, KEYSTORES, (False, True)):
        yield dict(base, blocks=[[blk, mal]], keys=keys, accept=accept)
        if keys == 'right':
            for secflags in (0x10, 0x04):
                yield dict(base, blocks=[[blk, mal]], keys=keys, accept=accept, secflags=secflags)
    for kind, mal, keys, accept in itertools.product(LAYERED, ('none', 'alter-target-0', 'wrong-kid'), KEYSTORES, (False, True)):
        yield dict(base, blocks=[[kind, mal]], keys=keys, accept=accept)
    # a BIB that travels encrypted (BCB over payload and BIB), not accepted: many different ciphertexts of the BIB
    for seed in range(60 if tier == 'quick' else 400):
        yield dict(base, seed=seed, blocks=[['bib+bcb-rfc', 'none']], keys='right', accept=False)
    pairs = [('bib-ext', 'bib-payload'), ('bib-ext', 'bcb-payload'), ('bib-payload', 'bib-ext'), ('bcb-payload', 'bib-ext')]
    for (first, second), mal, accept, bad_first in itertools.product(pairs, MALFORMATIONS[1:], (False, True), (False, True)):
        blocks = [[first, mal if bad_first else 'none'], [second, 'none' if bad_first else mal]]
        yield dict(base, blocks=blocks, keys='right', accept=accept)


def pinned_cases():
    base = {'plen': 9, 'seed': 1, 'pcrc': 1, 'bcrc': 0, 'keys': 'right'}
    yield 'garbage-asb', dict(base, blocks=[['bib-payload', 'asb-garbage']], accept=False)
    yield 'two-bibs-second-bad-accept', dict(base, blocks=[['bib-ext', 'none'], ['bib-payload', 'bad-tag']], accept=True)
    yield 'target-missing', dict(base, blocks=[['bib-payload', 'target-missing']], accept=False)


def base_bundle(case):
    from vlib import ref9171 as r, strat9174
    blocks = [dict(type=192, num=2, flags=0, crc_type=case['bcrc'], data=strat9174.content(6, case['seed'] + 1).hex()),
              dict(type=1, num=1, flags=0, crc_type=case['bcrc'], data=strat9174.content(case['plen'], case['seed']).hex())]
    pri = dict(version=7, flags=r.FLAG_RPT_DELETION | r.FLAG_RPT_DELIVERY, crc_type=case['pcrc'], dest=['dtn', '//dst/svc'], src=['dtn', '//srcnode/app'],
               rpt=['dtn', '//reports/'], ts=[789004000000, 5], lifetime=3600000, frag=None)
    return {'primary': pri, 'blocks': blocks}


def malform(bundle, sec_type, mal):
    ''' Apply one malformation to the LAST security block of the given type. '''
    from vlib import refcose as rc, cborpull as cb, bpsec_util as bu
    bundle = copy.deepcopy(bundle)
    blk = [b for b in bundle['blocks'] if b['type'] == sec_type][-1]
    if mal in ('none', 'no-params-default-scope', 'addl-protected-ok', 'addl-dup-keys'):
        return bundle     # (built that way by the reference source)
    if mal == 'asb-garbage':
        blk['data'] = 'ff0102fe8a'
        return bundle
    if mal == 'asb-empty':
        blk['data'] = ''
        return bundle
    asb = rc.parse_asb(blk['data'])
    asb.pop('src_raw', None)
    rid, enc = asb['results'][0][0]
    msg = rc._py(cb.parse(bytes(enc)))
    if mal == 'wrong-kid':
        msg[1] = dict(msg[1])
        msg[1][rc.HDR_KID] = b'nobody'
        asb['results'][0][0] = [rid, cb.enc(msg)]
    elif mal == 'bad-tag':
        if sec_type == 11:
            msg[-1] = bytes([msg[-1][0] ^ 0x80]) + bytes(msg[-1][1:])
            asb['results'][0][0] = [rid, cb.enc(msg)]
        else:
            tgt = next(b for b in bundle['blocks'] if b['num'] == asb['targets'][0])
            data = bytearray(bytes.fromhex(tgt['data']))
            data[-1] ^= 0x01
            tgt['data'] = bytes(data).hex()
    elif mal in ('alter-target-0', 'alter-target-1'):
        # one target of the block (first / last when it has several) changed after the operation was applied
        num = asb['targets'][min(int(mal[-1]), len(asb['targets']) - 1)]
        tgt = next(b for b in bundle['blocks'] if b['num'] == num)
        data = bytearray(bytes.fromhex(tgt['data']) or b'\x00')
        data[0] ^= 0x04
        tgt['data'] = bytes(data).hex()
        return bundle
    elif mal == 'attached-payload':
        # the sender's original content rides in the (normally nil) payload / ciphertext field of the COSE message while
        # the target block itself was altered: the operation covers the block, so it must not verify
        tgt = next(b for b in bundle['blocks'] if b['num'] == asb['targets'][0])
        msg[2] = bytes.fromhex(tgt['data'])
        asb['results'][0][0] = [rid, cb.enc(msg)]
        data = bytearray(bytes.fromhex(tgt['data']) or b'\x00')
        data[-1] ^= 0x20
        tgt['data'] = bytes(data).hex()
    elif mal == 'unknown-ctx':
        asb['ctx'] = 99
    elif mal == 'target-missing':
        asb['targets'] = [77]
    elif mal == 'dup-param':
        asb['params'] = list(asb['params']) + [copy.deepcopy(asb['params'][0])]
    elif mal == 'dup-result-id':
        asb['results'][0] = [asb['results'][0][0], copy.deepcopy(asb['results'][0][0])]
    elif mal == 'two-results':
        asb['results'][0] = [asb['results'][0][0], [rid + 1, enc]]
    elif mal == 'zero-results':
        asb['results'][0] = []
    elif mal == 'surplus-result':
        # one result list more than there are targets (RFC 9172 3.6: one per target, in the same order), holding an
        # undecodable COSE message
        asb['results'] = list(asb['results']) + [[[rid, b'\xff\x00\x01']]]
    elif mal in ('dup-target-bad-last', 'dup-target-bad-first'):
        # the first target is named a second time at the end of the target list, with a result list of its own; one of the
        # two results for it is genuine, the other one forged (BIB: MAC altered; BCB: a key nobody has).  RFC 9172 3.6
        # forbids duplicate targets; whatever a receiver makes of them, one operation of the block does not verify
        forged = list(msg)
        if sec_type == 11:
            forged[-1] = bytes([forged[-1][0] ^ 0x80]) + bytes(forged[-1][1:])
        else:
            forged[1] = dict(forged[1])
            forged[1][rc.HDR_KID] = b'nobody'
        forged = [rid, cb.enc(forged)]
        asb['targets'] = list(asb['targets']) + [asb['targets'][0]]
        if mal == 'dup-target-bad-last':
            asb['results'] = list(asb['results']) + [[forged]]
        else:
            asb['results'] = [[forged]] + list(asb['results'][1:]) + [[[rid, enc]]]
    elif mal == 'fewer-results':
        asb['targets'] = list(asb['targets']) + [2 if 2 not in asb['targets'] else 1]
    elif mal == 'params-flag-clear':
        asb['flags'] = 0
    elif mal == 'addl-undecodable':
        asb['params'] = list(asb['params']) + [[4, b'\xff\xff']]
    elif mal == 'crit-header':
        prot = rc._py(cb.parse(msg[0])) if msg[0] else {}
        prot = dict(prot)
        prot[2] = [99]
        prot[99] = 1
        msg[0] = cb.enc_canonical_map(prot)
        asb['results'][0][0] = [rid, cb.enc(msg)]
    elif mal == 'result-not-array':
        asb['results'][0][0] = [rid, cb.enc(12345)]
    elif mal == 'result-garbage':
        asb['results'][0][0] = [rid, b'\xff\x00\x01']
    elif mal == 'wrong-tag-kind':
        asb['results'][0][0] = [16 if sec_type == 11 else 17, enc]
    elif mal == 'unknown-tag':
        asb['results'][0][0] = [999, enc]
    else:
        raise ValueError(mal)
    blk['data'] = rc.encode_asb(asb)
    return bundle


def build(case):
    ''' :return: (plain bundle, wire bundle dict, list of (sec_type, block number, expected good?)) '''
    from vlib import bpsec_util as bu, cborpull as cb
    bundle = base_bundle(case)
    plan = []
    used_targets = set()
    for blk_kind, mal in case['blocks'][:2]:
        if blk_kind in LAYERED:
            if used_targets:
                continue
            used_targets.update([(11, 1), (12, 1)])
            bundle = bu.ref_add_bib(bundle, [1], 'k-mac-1', 5, {0: 1, -1: 1})
            bib_num = [b for b in bundle['blocks'] if b['type'] == 11][-1]['num']
            bcb_targets = [1] if blk_kind == 'bib+bcb' else [1, bib_num]
            # (the IVs vary with the case: what the ciphertext of the BIB looks like must not matter)
            from vlib import strat9174 as s9
            layered_ivs = [s9.content(12, case['seed'] + 7), s9.content(12, case['seed'] + 8)]
            bundle = bu.ref_add_bcb(bundle, bcb_targets, 'k-enc-1', 3, {0: 1, -1: 1}, layered_ivs[:len(bcb_targets)])
            bundle = malform(bundle, 12, mal)      # (the malformation, if any, hits the BCB / the ciphertext of the payload)
            plan.append((11, 1, 'none'))
            plan.append((12, 1, mal))
            continue
        targets = TARGETS[blk_kind]
        target = targets[0]
        sec_type = 11 if blk_kind.startswith('bib') else 12
        if any((sec_type, t) in used_targets or (t in [u for _s, u in used_targets] and 12 in (sec_type,) + tuple(s for s, _t in used_targets))
               for t in targets):
            continue     # one operation per target; nothing is layered over an encrypted block
        used_targets.update((sec_type, t) for t in targets)
        scope = {0: 1, -1: 1}
        kwargs = {}
        if mal == 'addl-protected-ok':
            kwargs['addl_protected'] = cb.enc({})
        if mal == 'addl-dup-keys':
            # the same (known) header in the protected and in the unprotected additional map
            kid = b'k-mac-1' if sec_type == 11 else b'k-enc-1'
            kwargs['addl_protected'] = cb.enc({4: kid})
            kwargs['addl_unprotected'] = cb.enc({4: kid})
        if case.get('secflags'):
            kwargs['sec_flags'] = case['secflags'] | (1 if sec_type == 12 else 0)
        if sec_type == 11:
            bundle = bu.ref_add_bib(bundle, targets, 'k-mac-1', 5, scope, **kwargs)
            if mal == 'no-params-default-scope':
                bundle = _rebuild_without_params(bundle, 11)
        else:
            bundle = bu.ref_add_bcb(bundle, targets, 'k-enc-1', 3, scope, [b'\x51' * 12, b'\x52' * 12][:len(targets)], **kwargs)
        bundle = malform(bundle, sec_type, mal)
        plan.append((sec_type, 1 if 1 in targets else target, mal))
    return base_bundle(case), bundle, plan


def _rebuild_without_params(bundle, sec_type):
    ''' A BIB without a parameter list: the default AAD scope {0:1,-1:1,-2:1} applies. '''
    from vlib import refcose as rc
    bundle = copy.deepcopy(bundle)
    blk = [b for b in bundle['blocks'] if b['type'] == sec_type][-1]
    asb = rc.parse_asb(blk['data'])
    asb.pop('src_raw', None)
    asb['flags'] = 0
    asb['params'] = None
    from vlib import bpsec_util as bu
    asb['results'] = []
    for num in asb['targets']:
        target = next(b for b in bundle['blocks'] if b['num'] == num)
        aad = rc.external_aad(bundle, blk, target, asb)
        asb['results'].append([[rc.TAG_MAC0, rc.mac0_create(5, bu.KEYS['k-mac-1'], b'k-mac-1', aad, bytes.fromhex(target['data']))]])
    blk['data'] = rc.encode_asb(asb)
    return bundle


def strict_verdict(bundle, keys):
    ''' Independent, strict verdict: do all operations of all security blocks verify?  Confidentiality comes off first:
    a BIB whose target (or which itself) is covered by a BCB is checked against the decrypted content. '''
    from vlib import refcose as rc, cborpull as cb
    plaintexts = {}
    verdict, plaintexts = _strict_pass(bundle, keys, 12, plaintexts)
    if not verdict:
        return False, plaintexts
    cleared = copy.deepcopy(bundle)
    for blk in cleared['blocks']:
        if blk['num'] in plaintexts and plaintexts[blk['num']] is not None:
            blk['data'] = bytes(plaintexts[blk['num']]).hex()
    verdict, _none = _strict_pass(cleared, keys, 11, {})
    return verdict, plaintexts


def _strict_pass(bundle, keys, sec_type, plaintexts):
    from vlib import refcose as rc, cborpull as cb
    for blk in bundle['blocks']:
        if blk['type'] != sec_type:
            continue
        try:
            asb = rc.parse_asb(blk['data'])
            if asb['ctx'] != 3:
                return False, plaintexts
            pids = [p[0] for p in asb.get('params') or []]
            if len(set(pids)) != len(pids):
                return False, plaintexts
            if len(asb['results']) != len(asb['targets']) or not asb['targets']:
                return False, plaintexts
            if len(set(asb['targets'])) != len(asb['targets']):
                # (RFC 9172 3.6: no duplicate entries; only generated with one of the two results forged)
                return False, plaintexts
            for results in asb['results']:
                rids = [x[0] for x in results]
                if len(results) != 1 or len(set(rids)) != len(rids):
                    return False, plaintexts
            _scope, prot, unprot = rc.params_of(asb)
            pmap = rc._py(cb.parse(prot)) if prot else {}
            umap = rc._py(cb.parse(unprot)) if unprot else {}
            if not isinstance(pmap, dict) or not isinstance(umap, dict) or set(pmap) & set(umap):
                return False, plaintexts
            if any(k not in (1, 4, 5, 33, 34) for k in list(pmap) + list(umap)):
                return False, plaintexts
            for results in asb['results']:
                rid = results[0][0]
                if blk['type'] == 11 and rid not in (rc.TAG_MAC0, rc.TAG_MAC):
                    return False, plaintexts
                if blk['type'] == 12 and rid not in (rc.TAG_ENC0, rc.TAG_ENC):
                    return False, plaintexts
            if blk['type'] == 11:
                if not rc.verify_bib(bundle, blk, keys):
                    return False, plaintexts
            else:
                res = rc.decrypt_bcb(bundle, blk, keys)
                if any(v is None for v in res.values()):
                    return False, plaintexts
                plaintexts.update(res)
        except (rc.CoseError, cb.CborError, ValueError, KeyError, IndexError, TypeError, AttributeError):
            return False, plaintexts
    return True, plaintexts


def execute(case):
    from vlib import bp_world as bw, ref9171 as r, refcose as rc, bpsec_util as bu
    out = Outcome()
    plain_bundle, bundle, plan = build(case)
    if not plan:
        return out
    keystore = case['keys']
    accept = bool(case['accept'])
    keys = {}
    if keystore == 'right':
        keys = bu.ref_keys(['k-mac-1', 'k-enc-1'])
    elif keystore == 'wrong':
        keys = {b'k-mac-1': bu.KEYS['k-mac-2'], b'k-enc-1': bu.KEYS['k-enc-2']}
    verdict, plaintexts = strict_verdict(bundle, keys)
    bw.reset()
    node = bw.Node('dtn://dst/', rx_routes=[('^dtn://dst/', 'deliver')], tx_routes=[('.*', 'dtn://next/', None)],
                   accept_after_verify=accept, name='dst')
    if keystore != 'none':
        bu.give_key(node, 'k-mac-1', 5, 'mac', keybytes=keys[b'k-mac-1'])
        bu.give_key(node, 'k-enc-1', 3, 'enc', keybytes=keys[b'k-enc-1'])
    finishes = []
    orig = node.agent._finish_bundle

    def finish(ctr):
        finishes.append((sorted(ctr.actions), ctr.status_reason))
        return orig(ctr)
    node.agent._finish_bundle = finish
    wire = r.encode(bundle)
    err = node.receive(wire)
    recs_all = node.records(False)
    recs = node.records()
    desc = '%s, keys %s, accept %s' % (['%s:%s' % (b, m) for b, m in case['blocks']], keystore, accept)
    for esc in node.escapes():
        out.fail('escape:%s@%s' % (esc.exc_type, esc.frame), 'exception escaped a main-loop callback (%s): %s: %s' % (desc, esc.exc_type, esc.exc_msg[:100]))
    out.label('keys:' + keystore, 'accept' if accept else 'verify-only', 'verdict:%s' % verdict, 'blocks:%d' % len(plan))
    if any(len(TARGETS.get(b, [1])) > 1 for b, _m in case['blocks'][:2]):
        out.label('multi-target')
    for sec_type, _t, mal in plan:
        out.label('%s:%s' % ('bib' if sec_type == 11 else 'bcb', mal))
    try:
        from bp.encoding import Bundle
        Bundle(wire)
        decodes = True
    except Exception:
        decodes = False
    out.nontrivial = decodes and any(m not in ('none', 'no-params-default-scope', 'addl-protected-ok') for _s, _t, m in plan)
    if err is not None and not decodes:
        out.label('bundle-undecodable')
        return out
    if err is not None:
        out.fail('receive-raises:%s' % type(err).__name__, 'the receive callback raised %s: %s (%s)' % (type(err).__name__, str(err)[:120], desc))
    plain_payload = plain_bundle['blocks'][-1]['data']
    wire_payload = bundle['blocks'][-1]['data']
    if not verdict:
        if recs:
            out.fail('unverifiable-delivered', 'a bundle with an unverifiable security block reached the application (%s)' % desc)
        elif recs_all:
            out.fail('unverifiable-reached-application-step', 'an application step of the receive chain ran for an unverifiable bundle (%s)' % desc)
        for rec in recs_all:
            if rec['payload'] is not None and rec['payload'].hex() == plain_payload and wire_payload != plain_payload:
                out.fail('plaintext-released', 'the decrypted payload was released although the bundle is unverifiable (%s)' % desc)
        reasons = [reason for acts, reason in finishes if 'delete' in acts]
        if not recs and not reasons:
            out.fail('not-marked-deleted', 'unverifiable bundle was not delivered but no deletion was recorded (finish %s, error %r) (%s)'
                     % (finishes, err, desc))
        elif reasons and not all(isinstance(x, int) and int(x) in SEC_REASONS for x in reasons):
            out.fail('deleted-without-security-reason', 'unverifiable bundle deleted with reason %r (%s)' % (reasons, desc))
        # the deletion report on the wire carries the security reason too
        for data in node.sent():
            try:
                dec = r.decode(data)
                if dec['primary']['flags'] & r.FLAG_ADMIN:
                    body = r.parse_status_report(r.payload_block(dec)['data'])
                    if body['status'][2][0]:
                        out.fail('report-asserts-delivered', 'a status report asserts delivery of an unverifiable bundle (%s)' % desc)
                    if body['status'][3][0] and body['reason'] not in SEC_REASONS:
                        out.fail('report-without-security-reason', 'deletion report carries reason %d (%s)' % (body['reason'], desc))
            except r.RefError as exc:
                out.fail('report-not-wellformed', 'emitted report is malformed: %s' % exc)
    else:
        if len(recs) != 1:
            out.fail('verifiable-not-delivered', 'all security blocks verify but the bundle was not delivered (finish %s, error %r) (%s)'
                     % (finishes, err, desc))
            return out
        rec = recs[0]
        bcb_on_payload = any(s == 12 and t == 1 for s, t, _m in plan)
        want = plaintexts[1].hex() if (bcb_on_payload and accept) else wire_payload
        if rec['payload'].hex() != want:
            out.fail('delivered-payload-wrong', 'delivered payload is %d octets, expected the %s (%s)'
                     % (len(rec['payload']), 'plaintext' if bcb_on_payload and accept else 'received data', desc))
        left = [t for t in rec['block_types'] if t in (11, 12)]
        if accept and left:
            out.fail('accepted-blocks-not-removed', 'security blocks %s remain after acceptance (%s)' % (left, desc))
        if not accept and len(left) != len(plan):
            out.fail('blocks-removed-without-acceptance', 'security blocks %s remain of %d although acceptance is off (%s)' % (left, len(plan), desc))
    return out
