''' C14 - TCPCL negotiates parameters correctly and keeps its timers. '''
import itertools

from hypothesis import strategies as st

from vlib import boot
from vlib.engine import Outcome

PROPERTY = 'C14'
RULE = ('One real ContactHandler (active or passive) on the virtual clock against a scripted RFC 9174 peer.  Drawn: '
        'local keepalive from {0,1,2,5,65535} and idle time from {0,1,3,10}, peer SESS_INIT keepalive from the same set, '
        'peer segment MRU / transfer MRU across 1..2^64-1, node id text, local initial segment size, '
        'modulate_target_ack_time in {None,1,5}; then a script of (wait, action) steps where waits are placed at '
        'deadline-1ms / deadline / deadline+1ms of the keepalive and idle timers (and random), and actions are: peer '
        'sends KEEPALIVE, peer stays silent, user sends a bundle, peer acknowledges (after a drawn delay, which drives the '
        'segment-size controller), user terminates.  The full grid keepalive^2 x idle x {silent, peer-keepalive just '
        'before each deadline} is enumerated.  Oracle from the timestamped octet log: negotiated keepalive == min, peer '
        'node id / MRUs as announced (exactly, also above 2^31-1 and up to 2^64-1); while established the '
        'gap after any transmission is <= K s and no KEEPALIVE when K = 0; idle time without traffic in either direction '
        '=> SESS_TERM reason 1 exactly then, and never while traffic was more recent; every segment <= peer segment '
        'MRU; a terminating endpoint that hears nothing closes by idle time.  Non-trivial = a timer actually expired in '
        'the run; distinct by SHA-1 of the case.')
SHRINK_KEYS = ('script',)
ASSUMPTIONS = [
    'virtual millisecond clock; the endpoint runs to quiescence at every instant at which something is due',
    'ACKs are never delivered in the same millisecond as the segment they answer when the size controller is on '
    '(a real clock never measures a zero round trip)',
    'with idle_time 0 (disabled) the "terminating endpoint still closes" clause is not judged: no timer is configured',
]
EXHAUSTIVE_PART = 'grid local keepalive x peer keepalive x idle time x {silence, peer keepalive at deadline-1ms} for active and passive; grid peer segment MRU x initial segment size x target ACK time for the size controller'

KEEPALIVES = [0, 1, 2, 5, 65535]
IDLES = [0, 1, 3, 10]


def prepare():
    boot.tcpcl()


def budgets(tier):
    if tier == 'quick':
        return dict(shards=16, examples=120)
    return dict(shards=16, examples=7500, deadline_s=3000)


@st.composite
def cases(draw):
    from vlib import strat9174 as s9
    ka = draw(st.sampled_from(KEEPALIVES))
    pka = draw(st.sampled_from(KEEPALIVES))
    idle = draw(st.sampled_from(IDLES))
    neg = min(ka, pka)
    waits = [1, 500, 999, 1000, 1001, 2500]
    if 0 < neg < 100:
        waits += [neg * 1000 - 1, neg * 1000, neg * 1000 + 1] * 2
    if idle:
        waits += [idle * 1000 - 1, idle * 1000, idle * 1000 + 1] * 2
    script = []
    for _ in range(draw(st.integers(1, 8))):
        action = draw(st.sampled_from(['peer-keepalive', 'silent', 'silent', 'user-send', 'ack', 'ack', 'user-term']))
        step = [action, draw(st.sampled_from(waits))]
        if action == 'user-send':
            step += [draw(st.sampled_from([1, 10, 100, 3000, 30000])), draw(st.integers(0, 99))]
        if action == 'ack':
            step.append(draw(st.sampled_from([1, 2, 10, 100, 999, 3000])))
        script.append(step)
    return {
        'active': draw(st.booleans()), 'keepalive': ka, 'idle': idle,
        'seg_init': draw(st.sampled_from([1, 7, 1000, 10240, 100000])),
        'target_ack': draw(st.sampled_from([None, None, 1, 5])),
        'peer': {'keepalive': pka,
                 'segment_mru': draw(st.sampled_from([1, 5, 64, 10239, 10240, 10241, 2 ** 31 - 1, 2 ** 31, 2 ** 64 - 1])),
                 'transfer_mru': draw(s9.u64()), 'nodeid': draw(s9.node_ids())},
        'script': script, 'horizon': draw(st.sampled_from([0, 1500, 12000])),
        # the peer is slow during negotiation: virtual ms before its contact header and before its SESS_INIT
        'pre_delay': [draw(st.sampled_from([0, 0, 0, 999, ka * 1000 + 1, 61000])), draw(st.sampled_from([0, 0, 0, 999, ka * 1000 + 1, 61000]))],
    }


def strategy(tier):
    return cases()


def enumerate_cases(tier):
    for case in slowlink_cases():
        yield case
    for case in trickle_cases():
        yield case
    for case in stall_cases():
        yield case
    for case in _controller_cases():
        yield case
    for active, ka, pka, idle in itertools.product((False, True), KEEPALIVES, KEEPALIVES, IDLES):
        base = {'active': active, 'keepalive': ka, 'idle': idle, 'seg_init': 1000, 'target_ack': None,
                'peer': {'keepalive': pka, 'segment_mru': 64, 'transfer_mru': 2 ** 40, 'nodeid': 'dtn://peer/'},
                'horizon': 21000}
        yield dict(base, script=[['silent', 1]])
        if ka:
            yield dict(base, script=[['silent', 1]], pre_delay=[ka * 1000 + 1, 0])
            yield dict(base, script=[['silent', 1]], pre_delay=[0, ka * 1000 + 1])
        neg = min(ka, pka)
        if 0 < neg < 100:
            yield dict(base, script=[['peer-keepalive', neg * 1000 - 1], ['peer-keepalive', neg * 1000 - 1], ['silent', neg * 1000 + 1]])
        if idle:
            yield dict(base, script=[['peer-keepalive', idle * 1000 - 1], ['peer-keepalive', idle * 1000 - 1], ['silent', 1]])
            yield dict(base, script=[['silent', idle * 1000 - 1], ['user-term', 0], ['silent', 1]])


def _controller_cases():
    ''' Adaptive segment sizing against every peer MRU class, with ACKs arriving after various delays. '''
    for active, mru, seg_init, target in itertools.product((False, True), (1, 5, 64, 10239, 10240, 10241), (1, 1000, 100000), (1, 5)):
        yield {'active': active, 'keepalive': 0, 'idle': 0, 'seg_init': seg_init, 'target_ack': target,
               'peer': {'keepalive': 0, 'segment_mru': mru, 'transfer_mru': 2 ** 40, 'nodeid': 'dtn://peer/'},
               'script': [['user-send', 1, 40000, 7], ['ack', 1, 5], ['ack', 3, 1], ['user-send', 1, 40000, 8], ['ack', 2, 999],
                          ['ack', 1, 10], ['ack', 1, 3000]], 'horizon': 0}


def pinned_cases():
    peer = {'keepalive': 2, 'segment_mru': 64, 'transfer_mru': 2 ** 40, 'nodeid': 'dtn://peer/'}
    yield 'keepalive-and-idle', {'active': False, 'keepalive': 5, 'idle': 3, 'seg_init': 1000, 'target_ack': None,
                                 'peer': peer, 'script': [['silent', 2000], ['silent', 2001]], 'horizon': 12000}
    yield 'terminating-silent-peer', {'active': True, 'keepalive': 0, 'idle': 3, 'seg_init': 1000, 'target_ack': None,
                                      'peer': peer, 'script': [['user-term', 500], ['silent', 1]], 'horizon': 12000}
    yield 'controller', {'active': True, 'keepalive': 0, 'idle': 0, 'seg_init': 100000, 'target_ack': 1,
                         'peer': dict(peer, segment_mru=10241, keepalive=0),
                         'script': [['user-send', 1, 30000, 1], ['ack', 5, 10], ['ack', 5, 999], ['ack', 1, 2]], 'horizon': 0}


def slowlink_cases():
    for active, idle, rate, term_at in itertools.product((False, True), (3, 5), (300, 1000), (None, 2)):
        yield {'kind': 'slowlink', 'active': active, 'idle': idle, 'rate': rate, 'size': rate * idle * 4, 'term_at': term_at}


def execute_slowlink(case):
    ''' A link that carries ``rate`` octets per (virtual) second: the endpoint's own bundle takes several idle times to
    write.  While its octets are flowing there is traffic, so the idle timer must neither start a termination nor - if
    the user asked for termination meanwhile - close the connection under the transfer. '''
    from vlib import tcpcl_world as tw, ref9174 as r, strat9174 as s9, simloop
    import dbus
    out = Outcome()
    active = bool(case['active'])
    idle, rate, size = int(case['idle']), int(case['rate']), int(case['size'])
    cfg = tw.make_config('dtn://real/', keepalive_time=0, idle_time=idle, segment_size_tx_initial=1000)
    world = tw.World(cfg, scripted=True, real_is_passive=not active, cap_ab=rate if active else None, cap_ba=None if active else rate)
    end = world.real
    hdl = end.hdl
    world.settle()
    world.peer_send(r.encode({'t': 'CH', 'magic': r.MAGIC.hex(), 'version': 4, 'flags': 0}))
    world.settle()
    del world.rx_pipe.readable[:]
    world.settle()
    world.peer_send(r.encode({'t': 'SESS_INIT', 'keepalive': 0, 'segment_mru': 1000, 'transfer_mru': 2 ** 40, 'nodeid': 'dtn://peer/', 'ext': []}))
    world.settle()
    del world.rx_pipe.readable[:]
    world.settle()
    if hdl._state != 'established':
        out.fail('not-established', 'handshake over the slow link ended in state %s' % hdl._state)
        return out
    data = s9.content(size, 7)
    bid = end.call('send_bundle_data', dbus.ByteArray(data))
    world.settle()
    acked = 0
    user_term_at = case.get('term_at')
    written_prev = len(world.rx_pipe.log)
    complete = False
    for second in range(1, 12 * idle + size // rate + 5):
        simloop.advance_to(simloop.CLOCK.now_ms + 1000)
        del world.rx_pipe.readable[:rate]          # what the link carried in this second
        world.settle()
        msgs = r.parse_stream(bytes(world.rx_pipe.log))[0]
        segs = [m for m in msgs if m['t'] == 'XFER_SEGMENT']
        cum = 0
        for idx, seg in enumerate(segs):
            cum += len(seg['data']) // 2
            # the peer acknowledges a segment once all of it has been carried (read) by the link
            carried = len(world.rx_pipe.log) - len(world.rx_pipe.readable) - len(world.rx_pipe.inflight)
            if idx >= acked and seg['end'] <= carried:
                try:
                    world.peer_send(r.encode({'t': 'XFER_ACK', 'flags': seg['flags'], 'id': seg['id'], 'length': cum}))
                except OSError:
                    pass
                acked = idx + 1
        world.settle()
        if user_term_at is not None and second == user_term_at:
            end.call('terminate', dbus.Byte(0))
            world.settle()
        fin = [e['args'][2] for e in end.signals('send_bundle_finished') if str(e['args'][0]) == str(bid)]
        if fin:
            complete = fin == ['success']
            if not complete:
                out.fail('slowlink-transfer-failed', 'the transfer over the slow link ended as %s after %d s (idle time %d s, %d octets/s)'
                         % (fin, second, idle, rate))
            break
        flowing = len(world.rx_pipe.log) > written_prev or hdl.send_buffer_used() > 0 or hdl.send_pending() > 0
        written_prev = len(world.rx_pipe.log)
        if end.sock.closed:
            out.fail('closed-while-own-octets-flow', 'the endpoint closed the connection after %d s with %d of %d bundle octets carried '
                     '(idle time %d s, link %d octets/s, user terminate at %s)' % (second, cum, size, idle, rate, user_term_at))
            break
        if hdl._in_term and user_term_at is None and flowing:
            out.fail('idle-termination-while-own-octets-flow', 'the endpoint started termination after %d s although its own octets '
                     'were being written every second (idle time %d s, link %d octets/s)' % (second, idle, rate))
            break
    else:
        out.fail('slowlink-never-completes', 'the transfer did not complete within the time the link needs for it')
    for esc in world.escapes():
        out.fail('escape:%s@%s' % (esc.exc_type, esc.frame), 'exception escaped an event-loop callback: %s: %s' % (esc.exc_type, esc.exc_msg[:120]))
    out.nontrivial = True
    out.label('slowlink', 'user-term' if user_term_at is not None else 'no-term')
    return out


def trickle_cases():
    for active, idle, pieces, tls in itertools.product((False, True), (3, 10), (4, 8), (False, True)):
        yield {'kind': 'trickle-in', 'active': active, 'idle': idle, 'pieces': pieces, 'size': 4000, 'tls': tls}


def stall_cases():
    for active, idle, ka in itertools.product((False, True), (3, 10), (0, 1, 2)):
        yield {'kind': 'stall', 'active': active, 'idle': idle, 'keepalive': ka, 'size': 60000}


def execute_trickle(case):
    ''' The peer's segment arrives in pieces, each less than the idle time after the one before, the whole of it taking
    longer than the idle time: octets arriving are traffic, the endpoint must not start an idle termination while they
    keep coming, and starts one exactly idle_time after the last of them (its ACK being the last traffic). '''
    from vlib import tcpcl_world as tw, ref9174 as r, strat9174 as s9, simloop
    out = Outcome()
    active = bool(case['active'])
    idle, pieces, size = int(case['idle']), int(case['pieces']), int(case['size'])
    tls = bool(case.get('tls'))
    # under TLS the whole segment is one TLS record of the peer: the TLS layer hands nothing over before its last piece
    script = {'handshake': 'ok', 'peer_cert_der': None, 'record_lens': []}
    cfg = tw.make_config('dtn://real/', keepalive_time=0, idle_time=idle, tls_script=script if tls else None, tls_enable=tls,
                         require_host_authn=False, require_node_authn=False)
    world = tw.World(cfg, scripted=True, real_is_passive=not active)
    end = world.real
    hdl = end.hdl
    world.settle()
    world.peer_send(r.encode({'t': 'CH', 'magic': r.MAGIC.hex(), 'version': 4, 'flags': r.CH_CAN_TLS if tls else 0}))
    world.settle()
    world.peer_send(r.encode({'t': 'SESS_INIT', 'keepalive': 0, 'segment_mru': 1000, 'transfer_mru': 2 ** 40, 'nodeid': 'dtn://peer/', 'ext': []}))
    world.settle()
    if hdl._state != 'established' or (tls and not tw.dbuscall(end.ctx, hdl, 'is_secure')):
        out.fail('not-established', 'handshake ended in state %s (tls %s)' % (hdl._state, tls))
        return out
    msg = r.encode({'t': 'XFER_SEGMENT', 'flags': 3, 'id': 5, 'ext': [r.transfer_length_ext(size)], 'data': s9.content(size, 3).hex()})
    if tls:
        script['record_lens'].append(len(msg))
        out.label('trickle-in-tls-record')
    step = (len(msg) + pieces - 1) // pieces
    gap_ms = idle * 400
    last_in = simloop.CLOCK.now_ms
    for idx in range(pieces):
        _advance(world, gap_ms)
        if end.sock.closed or hdl._in_term:
            out.fail('idle-termination-while-octets-arrive', 'the endpoint started termination %d ms after the latest octets arrived '
                     '(piece %d of %d of one segment, idle time %d s, pieces every %d ms)'
                     % (simloop.CLOCK.now_ms - last_in, idx, pieces, idle, gap_ms))
            return out
        world.peer_send(msg[idx * step:(idx + 1) * step])
        world.settle()
        last_in = simloop.CLOCK.now_ms
    fin = [e['args'] for e in end.signals('recv_bundle_finished')]
    if len(fin) != 1:
        out.fail('trickled-segment-not-received', 'the whole segment arrived but %d bundles were announced' % len(fin))
    # silence from now on: termination exactly idle_time after the last traffic (the ACK the endpoint wrote just now)
    _advance(world, idle * 1000 - 1)
    if hdl._in_term or end.sock.closed:
        out.fail('idle-termination-early', 'termination started before the idle time had passed since the last traffic')
    _advance(world, 2)
    msgs = r.parse_stream(bytes(world.rx_pipe.log))[0]
    terms = [m for m in msgs if m['t'] == 'SESS_TERM']
    if not terms or terms[0]['reason'] != 1:
        out.fail('no-idle-termination', 'no SESS_TERM with reason idle-timeout %d s after the last traffic (saw %s)' % (idle, terms))
    for esc in world.escapes():
        out.fail('escape:%s@%s' % (esc.exc_type, esc.frame), 'exception escaped an event-loop callback: %s: %s' % (esc.exc_type, esc.exc_msg[:120]))
    out.nontrivial = True
    out.label('trickle-in')
    return out


def execute_stall(case):
    ''' The peer stops reading in the middle of the endpoint's bundle and says nothing: once the socket takes no more
    octets there is no traffic in either direction (messages piling up in the endpoint's own buffers are not traffic).
    One idle time later the endpoint starts an idle termination, and a further idle time later - its SESS_TERM cannot
    leave either - it closes. '''
    from vlib import tcpcl_world as tw, ref9174 as r, strat9174 as s9, simloop
    import dbus
    out = Outcome()
    active = bool(case['active'])
    idle, ka, size = int(case['idle']), int(case['keepalive']), int(case['size'])
    cfg = tw.make_config('dtn://real/', keepalive_time=ka, idle_time=idle, segment_size_tx_initial=100000)
    cap = 3000
    world = tw.World(cfg, scripted=True, real_is_passive=not active, cap_ab=cap if active else None, cap_ba=None if active else cap)
    end = world.real
    hdl = end.hdl
    world.settle()
    world.peer_send(r.encode({'t': 'CH', 'magic': r.MAGIC.hex(), 'version': 4, 'flags': 0}))
    world.settle()
    del world.rx_pipe.readable[:]
    world.settle()
    world.peer_send(r.encode({'t': 'SESS_INIT', 'keepalive': ka, 'segment_mru': 100000, 'transfer_mru': 2 ** 40, 'nodeid': 'dtn://peer/', 'ext': []}))
    world.settle()
    del world.rx_pipe.readable[:]
    world.settle()
    if hdl._state != 'established':
        out.fail('not-established', 'handshake ended in state %s' % hdl._state)
        return out
    end.call('send_bundle_data', dbus.ByteArray(s9.content(size, 7)))
    world.settle()
    # the peer reads nothing from here on: the pipe fills up and the socket takes no more
    written = len(world.rx_pipe.log)
    stalled_at = simloop.CLOCK.now_ms
    term_at = closed_at = None
    for _ in range(4 * idle * 10 + 50):
        _advance(world, 100)
        if len(world.rx_pipe.log) != written:
            # (octets still went into the socket: traffic)
            written = len(world.rx_pipe.log)
            stalled_at = simloop.CLOCK.now_ms
        if term_at is None and hdl._in_term:
            term_at = simloop.CLOCK.now_ms
        if end.sock.closed:
            closed_at = simloop.CLOCK.now_ms
            break
    desc = 'idle time %d s, keepalive %d s, the socket took its last octet at %d ms' % (idle, ka, stalled_at)
    if term_at is None and closed_at is None:
        out.fail('stalled-session-never-idles-out', 'no octet moved in either direction for %d ms and the endpoint neither started an idle '
                 'termination nor closed (%s; %d octets wait in its message buffer)'
                 % (simloop.CLOCK.now_ms - stalled_at, desc, hdl.send_buffer_used()))
    else:
        first = term_at if term_at is not None else closed_at
        if first - stalled_at < idle * 1000:
            out.fail('idle-termination-early', 'termination started %d ms after the last traffic (%s)' % (first - stalled_at, desc))
        elif first - stalled_at > idle * 1000 + 200:
            out.fail('idle-termination-late', 'termination started %d ms after the last traffic (%s)' % (first - stalled_at, desc))
        if closed_at is None:
            out.fail('terminating-endpoint-never-closes', 'the endpoint is terminating since %d ms, nothing moves, and it has not closed (%s)'
                     % (simloop.CLOCK.now_ms - first, desc))
    for esc in world.escapes():
        out.fail('escape:%s@%s' % (esc.exc_type, esc.frame), 'exception escaped an event-loop callback: %s: %s' % (esc.exc_type, esc.exc_msg[:120]))
    out.nontrivial = True
    out.label('stall', 'stall-keepalive:%d' % ka)
    return out


def _advance(world, ms):
    ''' Let virtual time pass, firing the endpoint's timers in order. '''
    from vlib import simloop
    target = simloop.CLOCK.now_ms + ms
    while True:
        due = world.real.ctx.next_due()
        if due is None or due > target:
            break
        simloop.advance_to(max(due, simloop.CLOCK.now_ms))
        world.settle()
    simloop.advance_to(target)
    world.settle()


def execute(case):
    if case.get('kind') == 'slowlink':
        return execute_slowlink(case)
    if case.get('kind') == 'trickle-in':
        return execute_trickle(case)
    if case.get('kind') == 'stall':
        return execute_stall(case)
    from vlib import tcpcl_world as tw, ref9174 as r, strat9174 as s9, simloop
    import dbus
    out = Outcome()
    active = bool(case['active'])
    ka = int(case['keepalive'])
    idle = int(case['idle'])
    peer_cfg = case['peer']
    kwargs = dict(keepalive_time=ka, idle_time=idle, segment_size_tx_initial=max(1, int(case.get('seg_init', 1000))))
    if case.get('target_ack') is not None:
        kwargs['modulate_target_ack_time'] = case['target_ack']
    cfg = tw.make_config('dtn://real/', **kwargs)
    world = tw.World(cfg, scripted=True, real_is_passive=not active)
    end = world.real
    hdl = end.hdl
    rx_times = []        # virtual times at which peer octets were handed to the endpoint
    state = dict(parsed=[], acked=0)

    def pump():
        world.settle(on_deliver=lambda: rx_times.append(simloop.CLOCK.now_ms))

    def advance(target):
        while True:
            due = end.ctx.next_due()
            if due is None or due > target or end.sock.closed:
                break
            simloop.advance_to(max(due, simloop.CLOCK.now_ms))
            pump()
        simloop.advance_to(max(target, simloop.CLOCK.now_ms))
        pump()

    def peer_send(msg):
        if world.peer_sock.tx.reader_closed:
            return
        try:
            world.peer_send(r.encode(msg))
        except OSError:
            pass

    # handshake (the peer may be slow: no timer of the endpoint may produce anything before the session exists)
    pre = case.get('pre_delay') or [0, 0]
    pump()
    if pre[0]:
        advance(simloop.CLOCK.now_ms + int(pre[0]))
    peer_send({'t': 'CH', 'magic': r.MAGIC.hex(), 'version': 4, 'flags': 0})
    pump()
    if pre[1]:
        advance(simloop.CLOCK.now_ms + int(pre[1]))
    peer_send({'t': 'SESS_INIT', 'keepalive': peer_cfg['keepalive'], 'segment_mru': peer_cfg['segment_mru'],
               'transfer_mru': peer_cfg['transfer_mru'], 'nodeid': peer_cfg['nodeid'], 'ext': []})
    pump()
    t_est = simloop.CLOCK.now_ms
    neg = min(ka, peer_cfg['keepalive'])
    early = [m['t'] for m in r.parse_stream(world.real_wire())[0]]
    if early[:2] != ['CH', 'SESS_INIT'][:len(early[:2])] or any(t not in ('CH', 'SESS_INIT') for t in early[:2]):
        out.fail('message-before-sess-init', 'the endpoint wrote %s while the peer was slow to negotiate (delays %s ms): only the '
                 'contact header and then SESS_INIT may be written before the session exists' % (early[:4], pre))
    if any(pre):
        out.label('slow-negotiation')
    nul_id = '\x00' in peer_cfg['nodeid']
    if hdl._state != 'established':
        if nul_id:
            # a node id that cannot be passed on over D-Bus may be refused altogether
            out.label('nul-node-id-refused')
            for esc in world.escapes():
                out.fail('escape:%s@%s' % (esc.exc_type, esc.frame), 'exception escaped an event-loop callback: %s: %s' % (esc.exc_type, esc.exc_msg[:120]))
            return out
        out.fail('not-established', 'handshake with a conforming peer ended in state %s' % hdl._state)
        return out
    # (1) negotiated parameters
    params = end.call('get_session_parameters')
    last = dbus.RECORDER.events[-1] if dbus.RECORDER.events else {}
    if last.get('kind') == 'return' and last.get('member') == 'get_session_parameters' and last.get('error'):
        out.fail('params-do-not-marshal', 'the reply of get_session_parameters() does not fit a{sv}: %s (peer node id %r)'
                 % (last['error'], peer_cfg['nodeid'][:30]))
    if hasattr(params, 'exc'):
        out.fail('params-error', 'get_session_parameters failed: %r' % (params,))
    else:
        if nul_id:
            out.label('nul-node-id')
            peer_cfg = dict(peer_cfg, nodeid=params.get('peer_nodeid'))    # not comparable: only marshalling is judged
        want = {'keepalive': neg, 'peer_nodeid': peer_cfg['nodeid'], 'peer_segment_mru': peer_cfg['segment_mru'],
                'peer_transfer_mru': peer_cfg['transfer_mru']}
        for key, val in want.items():
            if params.get(key) != val:
                out.fail('negotiated-%s' % key, 'get_session_parameters()[%r] is %r, expected %r (local keepalive %d, peer %d)'
                         % (key, params.get(key), val, ka, peer_cfg['keepalive']))
    user_term_at = None
    pending_acks = []
    for step in case['script']:
        action, wait = step[0], max(0, int(step[1]))
        advance(simloop.CLOCK.now_ms + wait)
        if end.sock.closed:
            break
        if action == 'peer-keepalive':
            peer_send({'t': 'KEEPALIVE'})
            pump()
        elif action == 'user-send':
            seg_now = max(1, min(int(case.get('seg_init', 1000)), peer_cfg['segment_mru']))
            length = min(max(1, int(step[2])), 40000, 50 * seg_now)   # bounded number of segments per bundle
            end.call('send_bundle_data', dbus.ByteArray(s9.content(length, int(step[3]))))
            pump()
        elif action == 'ack':
            # acknowledge everything received so far, after a delay of step[2] ms (>= 1)
            delay = max(1, int(step[2]))
            advance(simloop.CLOCK.now_ms + delay)
            msgs = r.parse_stream(world.real_wire())[0]
            segs = [m for m in msgs if m['t'] == 'XFER_SEGMENT']
            cum = {}
            for idx, seg in enumerate(segs):
                if seg['flags'] & 2:
                    cum[seg['id']] = 0
                cum[seg['id']] = cum.get(seg['id'], 0) + len(seg['data']) // 2
                if idx >= state['acked']:
                    peer_send({'t': 'XFER_ACK', 'flags': seg['flags'], 'id': seg['id'], 'length': cum[seg['id']]})
                    state['acked'] = idx + 1
                    pump()
                    # the next ACK is at least 1 ms later
                    advance(simloop.CLOCK.now_ms + 1)
        elif action == 'user-term':
            res = end.call('terminate', dbus.Byte(0))
            if not hasattr(res, 'exc') and user_term_at is None:
                user_term_at = simloop.CLOCK.now_ms
            pump()
    advance(simloop.CLOCK.now_ms + max(0, int(case.get('horizon', 0))))
    t_end = simloop.CLOCK.now_ms

    # --- oracle over the timestamped wire ---
    for esc in world.escapes():
        out.fail('escape:%s@%s' % (esc.exc_type, esc.frame), 'exception escaped an event-loop callback (%s): %s: %s'
                 % (esc.source, esc.exc_type, esc.exc_msg[:140]))
    msgs, _used, status = r.parse_stream(world.real_wire())
    writes = world.rx_pipe.writes

    def time_of(offset_end):
        for t_ms, off, length in writes:
            if off < offset_end <= off + length:
                return t_ms
        return None
    timed = [(time_of(m['end']), m) for m in msgs]
    term = next(((t, m) for t, m in timed if m['t'] == 'SESS_TERM'), None)
    close_t = end.sock.close_time if end.sock.closed else None
    live_end = min(x for x in (term[0] if term else None, close_t, t_end) if x is not None)
    tx_times = sorted(set(t for t, m in timed if t is not None))
    # (2) keepalive
    keepalives = [(t, m) for t, m in timed if m['t'] == 'KEEPALIVE']
    expired = False
    if neg == 0:
        if keepalives:
            out.fail('keepalive-when-disabled', 'KEEPALIVE sent at %s although the negotiated interval is 0' % keepalives[0][0])
    else:
        marks = [t for t in tx_times if t_est <= t <= live_end]
        if not marks or marks[0] > t_est:
            marks = [t_est] + marks
        for idx, t in enumerate(marks):
            nxt = marks[idx + 1] if idx + 1 < len(marks) else None
            limit = t + neg * 1000
            if nxt is None:
                if live_end > limit:
                    out.fail('keepalive-missing', 'nothing was sent between %d ms and %d ms although the negotiated '
                             'keepalive is %d s (established until %d ms)' % (t, live_end, neg, live_end))
            elif nxt > limit:
                out.fail('keepalive-late', 'gap between transmissions %d ms -> %d ms exceeds the negotiated keepalive %d s'
                         % (t, nxt, neg))
        if keepalives:
            expired = True
    # (3) idle timeout
    traffic = sorted(set([t for t in tx_times if t >= t_est] + [t for t in rx_times if t >= t_est] + [t_est]))
    if idle > 0:
        idle_terms = [(t, m) for t, m in timed if m['t'] == 'SESS_TERM' and m['reason'] == 1 and not m['flags'] & 1]
        for t, _m in idle_terms:
            recent = [x for x in traffic if t - idle * 1000 < x < t]
            if recent:
                out.fail('idle-term-early', 'idle-timeout SESS_TERM at %d ms although there was traffic at %d ms (idle time %d s)'
                         % (t, recent[-1], idle))
            expired = True
        # every silent stretch of >= idle seconds while established must end in the idle SESS_TERM
        points = [x for x in traffic if x <= live_end]
        for idx, t in enumerate(points):
            nxt = points[idx + 1] if idx + 1 < len(points) else live_end
            deadline = t + idle * 1000
            if deadline < nxt or (idx + 1 == len(points) and deadline <= live_end and (term is None or term[0] > deadline)):
                got = term is not None and term[0] == deadline and term[1]['reason'] == 1
                if not got and (term is None or term[0] > deadline) and (close_t is None or close_t > deadline):
                    out.fail('idle-term-missing', 'no traffic from %d ms for %d s while established, but no idle-timeout '
                             'SESS_TERM at %d ms (SESS_TERM: %s)' % (t, idle, deadline, term and (term[0], term[1]['reason'])))
                    break
    else:
        if any(m['t'] == 'SESS_TERM' and m['reason'] == 1 for _t, m in timed) :
            out.fail('idle-term-when-disabled', 'idle-timeout SESS_TERM although idle_time is 0')
    # (4) segment sizes
    for t, m in timed:
        if m['t'] == 'XFER_SEGMENT' and len(m['data']) // 2 > peer_cfg['segment_mru']:
            out.fail('segment-exceeds-mru', 'segment of %d octets, peer segment MRU %d (target ack %s)'
                     % (len(m['data']) // 2, peer_cfg['segment_mru'], case.get('target_ack')))
            break
    sizes = sorted(set(len(m['data']) // 2 for _t, m in timed if m['t'] == 'XFER_SEGMENT'))
    if len(sizes) > 2:
        out.label('segment-size-adapted')
    # (5) a terminating endpoint that hears nothing still closes
    if term is not None and idle > 0:
        heard_after = [x for x in rx_times if x > term[0]]
        if not heard_after:
            limit = term[0] + idle * 1000 + 1000
            if t_end > limit and (close_t is None or close_t > limit):
                out.fail('terminating-never-closes', 'SESS_TERM sent at %d ms, peer silent, idle time %d s, socket still open '
                         'at %d ms' % (term[0], idle, t_end))
            if close_t is not None:
                expired = True
    out.nontrivial = expired
    out.label('active' if active else 'passive', 'neg-keepalive:%d' % neg, 'idle:%d' % idle,
              'modulate' if case.get('target_ack') is not None else 'fixed-seg')
    if term:
        out.label('sess-term-reason:%d' % term[1]['reason'])
    return out
