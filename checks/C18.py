''' C18 - The D-Bus view of transfers is type-correct and consistent with reality. '''
import itertools

from hypothesis import strategies as st

from vlib import boot
from vlib.engine import Outcome

PROPERTY = 'C18'
RULE = ('(tcpcl) two-endpoint histories as in C01/C09 (sends, pops, terminate, schedules, back-pressure) with user '
        'queries interleaved at every step: send_bundle_get_queue, recv_bundle_get_queue, recv_bundle_pop_data (valid, '
        'repeated, unknown id), recv_bundle_pop_file into a path that cannot be created, is_sess_idle, get_session_parameters, get_session_state, is_secure, Agent.get_connections. '
        '(refusal) a scripted peer refuses one of the endpoint own transfers while it is queued, in the middle of its segments, or '
        'after its last segment and before the final ACK, then acknowledges the rest and optionally the refused one too (all '
        '40 combinations enumerated): exactly one finished signal per transfer, empty send queue and idle afterwards.  '
        '(udpcl) a real UDPCL agent pair over an in-memory datagram socket: sends of generated sizes/MTUs, arrival '
        'permutations with repeats, pops (valid, repeated, unknown), queue queries and a polling message.  Every signal '
        'emission and method return passes through a model of dbus-python marshalling against the declared signature.  '
        'Oracle: no emission/return fails to marshal; recv queue == announced-finished minus popped at every query; pop '
        'returns the sender bytes once and an error reply afterwards; send queue == accepted minus finished; <= 1 '
        'finished signal per started transfer and exactly 1 after a graceful end; is_sess_idle() true => nothing '
        'queued / in progress / unacknowledged / buffered, and true after a complete fair drain.  (stack) three whole nodes '
        '(BP agent + the real bp.cla adaptors + TCPCL and UDPCL agents, virtual message bus, simulated network): bundles are '
        'originated, sessions terminated / closed and re-made; the adaptor, as the consumer of the finished signals, must '
        'hand every transfer that completed on the wire to the BP agent once, with the sender octets, leave the receive queues '
        'empty, and every value crossing the bus in either direction must marshal against the declared signature; over impaired datagram '
        'networks (every UDP datagram / Ethernet frame twice and / or out of order) a second copy of a bundle may be announced and handed over, '
        'but nothing that no peer sent, and the queues still drain; every TCP connection a node holds open at quiescence is a contact its agent '
        'lists (the virtual bus refuses a second object on a taken path, as dbus-python does).  Non-trivial = a query '
        'landed while a transfer was mid-flight; distinct by SHA-1 of the case.')
SHRINK_KEYS = ('ops',)
ASSUMPTIONS = [
    'vlib/dbusmodel.py models the documented dbus-python marshalling rules (it is not the library)',
    'method calls on an object already removed from the bus are answered by the bus (UnknownObject), the method does not run',
    '(stack) the virtual bus delivers a signal to its subscribers through their main loop, in emission order, and runs a '
    'method call inside the process that exported the object while the caller waits',
]


def prepare():
    boot.tcpcl()
    boot.udpcl()
    boot.bp()


def budgets(tier):
    if tier == 'quick':
        return dict(shards=16, examples=120)
    return dict(shards=16, examples=5000, deadline_s=3000)


def strategy(tier):
    from vlib import tcpcl_machine as tm
    def densify(case):
        # a query after every scheduler run, so that many land while a transfer is mid-flight
        names = ['is_sess_idle', 'send_bundle_get_queue', 'recv_bundle_get_queue', 'pop_file_bad']
        ops = []
        for idx, op in enumerate(case['ops']):
            ops.append(op)
            if op[0] == 'run':
                ops.append(['query', 'AB'[idx % 2], names[(idx // 2) % 4]])
        return dict(case, ops=ops, kind='tcpcl')
    tcp = tm.cases(max_ops=16 if tier == 'quick' else 26, terminate=True, queries=True).map(densify)
    try:
        from vlib import udpcl_machine as um
        from vlib import stack_world as sw
        return st.one_of(tcp, tcp, um.cases().map(lambda c: dict(c, kind='udpcl')), sw.cases(netfault=True), peer_value_cases())
    except ImportError:
        return tcp


BIG = [0, 1, 2 ** 31 - 1, 2 ** 31, 2 ** 32, 2 ** 63, 2 ** 64 - 1]


def peer_value_cases():
    ''' Values chosen by the peer that reach signals and return values: session parameters, transfer IDs, the announced
    total length of a transfer. '''
    xfer = st.tuples(st.sampled_from(BIG), st.sampled_from([0, 5]), st.sampled_from([None, 'true'] + BIG[3:]), st.integers(1, 2)).map(list)
    return st.fixed_dictionaries({
        'kind': st.just('peer-values'), 'active': st.booleans(),
        'keepalive': st.sampled_from([0, 1, 65535]), 'segment_mru': st.sampled_from([1000, 2 ** 32, 2 ** 64 - 1]),
        'transfer_mru': st.sampled_from([1000, 2 ** 31, 2 ** 63, 2 ** 64 - 1]),
        'nodeid': st.sampled_from(['dtn://peer/', '', 'dtn://\u4e2d/', 'ipn:4294967296.1']),
        'xfers': st.lists(xfer, min_size=1, max_size=4),
    })


def enumerate_cases(tier):
    for case in refusal_cases():
        yield case
    for tid, total in itertools.product(BIG, [None, 'true'] + BIG[3:]):
        yield {'kind': 'peer-values', 'active': False, 'keepalive': 0, 'segment_mru': 2 ** 64 - 1, 'transfer_mru': 2 ** 64 - 1,
               'nodeid': 'dtn://peer/', 'xfers': [[tid, 5, total, 1], [7, 5, total, 2]]}


def pinned_cases():
    cfg = {'a': dict(seg_init=3, mru=7, keepalive=0, idle=0), 'b': dict(seg_init=2, mru=2, keepalive=0, idle=0),
           'cap_ab': None, 'cap_ba': None, 'regime': 'fair', 'priv_ext': False}
    ops = [['estab'], ['query', 'A', 'get_session_parameters'], ['send', 'A', 11, 1], ['query', 'A', 'send_bundle_get_queue'],
           ['run', [0, 0, 1]], ['query', 'B', 'is_sess_idle'], ['query', 'A', 'is_sess_idle'], ['run', [0, 1] * 10],
           ['query', 'B', 'recv_bundle_get_queue'], ['pop', 'B'], ['query', 'B', 'pop_twice'], ['query', 'B', 'pop_unknown'],
           ['query', 'A', 'get_connections']]
    yield 'queries', {'kind': 'tcpcl', 'cfg': cfg, 'ops': ops}
    # a TLS session in which both certificates name address and node ID: the authentication results are reported
    yield 'queries-tls-cert', {'kind': 'tcpcl', 'cfg': dict(cfg, tls='cert'),
                               'ops': [['estab'], ['query', 'A', 'get_session_parameters'], ['query', 'B', 'get_session_parameters'],
                                       ['query', 'A', 'is_secure'], ['send', 'B', 5, 2], ['run', [0, 1] * 10]]}
    yield 'stack-reconnect', {'kind': 'stack', 'keepalive': 0, 'hops': ['tcpcl', 'udpcl'], 'umtu': 100, 'rmtu': None, 'size': 300,
                              'ops': [['send', 1, 3, True, 0], ['cut', 2], ['send', 3, 1, False, 1], ['send', 1, 3, True, 1]]}
    for fault in ('dup', 'dup-late', 'reverse-dup'):
        yield 'stack-netfault-%s' % fault, {'kind': 'stack', 'keepalive': 0, 'hops': ['udpcl', 'btpu'], 'umtu': 100, 'emtu': 100, 'rmtu': None,
                                            'size': 300, 'netfault': fault,
                                            'ops': [['send', 1, 3, True, 1], ['send', 3, 1, False, 0], ['send', 1, 3, True, 0], ['wait', 1000]]}
    # a contact of n2 goes away while another one stays, then a new one arrives (object paths must not be used twice)
    yield 'stack-contact-arrives-after-another-left', {'kind': 'stack', 'keepalive': 0, 'hops': ['tcpcl', 'tcpcl'], 'umtu': None, 'emtu': None,
                                                       'rmtu': None, 'size': 8,
                                                       'ops': [['send', 1, 3, True, 0], ['close', 1], ['send', 1, 3, True, 0], ['send', 3, 1, True, 0]]}
    yield 'stack-finish-then-terminate', {'kind': 'stack', 'hops': ['tcpcl', 'tcpcl'], 'keepalive': 10, 'rmtu': 150, 'size': 8, 'umtu': None,
                                          'ops': [['send', 1, 3, True, 0], ['send', 3, 2, False, 0], ['cut', 2], ['send', 1, 2, True, 1]]}
    yield 'pop-to-unwritable-file', {'kind': 'tcpcl', 'cfg': cfg,
                                     'ops': [['estab'], ['send', 'A', 11, 1], ['run', [0, 1] * 30], ['query', 'B', 'recv_bundle_get_queue'],
                                             ['query', 'B', 'pop_file_bad'], ['pop', 'B']]}


def judge_tcpcl(trace, out):
    from vlib import tcpcl_machine as tm
    world = trace.world
    tm.escapes_to(out, trace)
    # (1) marshalling of everything that crossed the boundary
    for ev in trace.events:
        if ev.get('error') and ev['kind'] == 'signal':
            out.fail('signal-does-not-marshal:%s' % ev['member'], 'signal %s%r does not fit its signature %r: %s'
                     % (ev['member'], ev['args'], ev['signature'], ev['error']))
        if ev.get('error') and ev['kind'] == 'return':
            out.fail('return-does-not-marshal:%s' % ev['member'], 'return value %r of %s does not fit %r: %s'
                     % (ev.get('value'), ev['member'], ev['signature'], ev['error']))
    abrupt = bool(trace.close_calls or trace.vanished)
    accepted_term = [1 for (_s, _side, _r, res) in trace.term_calls if not hasattr(res, 'exc')]
    mid_flight_query = False
    for side in ('A', 'B'):
        hdl = world.ends[side].hdl
        peer = tm.other(side)
        sends = [(str(res), data, seq) for (res, data, seq) in trace.sent[side] if not hasattr(res, 'exc')]
        sfin = tm.signals_of(trace, side, 'send_bundle_finished')
        sstart = tm.signals_of(trace, side, 'send_bundle_started')
        rfin = tm.signals_of(trace, side, 'recv_bundle_finished')
        rstart = tm.signals_of(trace, side, 'recv_bundle_started')
        pops = trace.popped[side]
        # at most one finished per transfer
        for name, evs in (('send', sfin), ('recv', rfin)):
            ids = [str(e['args'][0]) for e in evs]
            dup = [i for i in set(ids) if ids.count(i) > 1]
            if dup:
                out.fail('%s-finished-twice' % name, '%s_bundle_finished emitted more than once for %s on %s' % (name, dup, side))
        # pops: data of the sender, exactly once
        peer_model = {str(res): data for (res, data, _s) in trace.sent[peer] if not hasattr(res, 'exc')}
        seen_pop = set()
        for bid, res, _seq in pops:
            if hasattr(res, 'exc') and 'UnknownObject' in str(getattr(res.exc, '_dbus_error_name', '') or ''):
                # the contact object had already left the bus (session closed): the bus answers, the method does not run
                trace.labels.add('pop-after-object-removed')
            elif hasattr(res, 'exc'):
                out.fail('pop-announced-fails', 'recv_bundle_pop_data(%s) of an announced transfer failed: %r' % (bid, res))
            elif bid in peer_model and bytes(res) != peer_model[bid]:
                out.fail('pop-wrong-data', 'recv_bundle_pop_data(%s) returned %d octets, sender queued %d' % (bid, len(res), len(peer_model[bid])))
            seen_pop.add(bid)
        for seq, qside, name, res, snap in trace.queries:
            if qside != side:
                continue
            if hasattr(res, 'exc') and res.name == 'DBusException' and 'no such object' in str(res.exc):
                continue   # object already removed from the bus
            if name == 'recv_bundle_get_queue':
                announced = [str(e['args'][0]) for e in rfin if e['seq'] <= seq]
                popped = [b for (b, _r, s) in pops if s <= seq]
                want = sorted(b for b in announced if b not in popped)
                if hasattr(res, 'exc') or sorted(str(x) for x in res) != want:
                    out.fail('recv-queue-inconsistent', 'recv_bundle_get_queue() = %r, announced-finished minus popped = %r' % (res, want))
            elif name == 'send_bundle_get_queue':
                queued = [b for (b, _d, s) in sends if s <= seq]
                done = [str(e['args'][0]) for e in sfin if e['seq'] <= seq]
                want = sorted(b for b in queued if b not in done)
                if hasattr(res, 'exc') or sorted(str(x) for x in res) != want:
                    out.fail('send-queue-inconsistent', 'send_bundle_get_queue() = %r, queued minus finished = %r' % (res, want))
            elif name == 'pop_twice' and res is not None:
                if not hasattr(res, 'exc'):
                    out.fail('second-pop-succeeds', 'popping an already popped transfer returned %d octets again' % len(res))
            elif name == 'pop_unknown':
                if not hasattr(res, 'exc'):
                    out.fail('unknown-pop-succeeds', 'popping an unknown transfer id returned %r' % (res,))
            elif name == 'is_sess_idle':
                queued = [b for (b, _d, s) in sends if s <= seq]
                done = [str(e['args'][0]) for e in sfin if e['seq'] <= seq]
                pending = [b for b in queued if b not in done]
                rx_open = len([e for e in rstart if e['seq'] <= seq]) - len([e for e in rfin if e['seq'] <= seq])
                if pending or rx_open:
                    mid_flight_query = True
                if hasattr(res, 'exc'):
                    out.fail('idle-query-fails', 'is_sess_idle() failed: %r' % (res,))
                elif res:
                    if pending or rx_open or snap['rx_buf'] or snap['tx_buf']:
                        out.fail('idle-while-busy', 'is_sess_idle() is true on %s with pending sends %s, open receptions %d, '
                                 'receive buffer %d, transmit buffer %d' % (side, pending, rx_open, snap['rx_buf'], snap['tx_buf']))
            elif name in ('get_session_parameters', 'get_session_state', 'is_secure', 'get_connections'):
                if hasattr(res, 'exc'):
                    out.fail('query-fails:%s' % name, '%s() failed: %r' % (name, res))
            if name in ('send_bundle_get_queue', 'recv_bundle_get_queue'):
                started = len([e for e in sstart if e['seq'] <= seq]) - len([e for e in sfin if e['seq'] <= seq and str(e['args'][0]) in
                                                                            [str(x['args'][0]) for x in sstart if x['seq'] <= seq]])
                if started > 0:
                    mid_flight_query = True
        # graceful end: every started transfer has exactly one finished signal
        if accepted_term and not abrupt and trace.drain_rounds is not None and world.ends[side].sock.closed:
            for e in sstart:
                bid = str(e['args'][0])
                count = len([x for x in sfin if str(x['args'][0]) == bid])
                if count != 1:
                    out.fail('started-without-finished', 'transfer %s of %s was started but got %d finished signals after a '
                             'graceful end' % (bid, side, count))
            for e in rstart:
                bid = str(e['args'][0])
                count = len([x for x in rfin if str(x['args'][0]) == bid])
                if count != 1:
                    out.fail('reception-without-finished', 'reception %s on %s was started but got %d finished signals after a '
                             'graceful end' % (bid, side, count))
        # idle becomes true once everything has drained
        if not accepted_term and not abrupt and trace.drain_rounds is not None and not world.ends[side].sock.closed:
            all_done = all(any(str(e['args'][0]) == b and e['args'][2] == 'success' for e in sfin) for (b, _d, _s) in sends)
            if all_done and hdl._state == 'established':
                res = world.ends[side].call('is_sess_idle')
                if hasattr(res, 'exc') or not res:
                    out.fail('never-idle-after-drain', 'everything completed and drained but is_sess_idle() is %r on %s '
                             '(receive buffer %d)' % (res, side, hdl.recv_buffer_used()))
    return mid_flight_query


def refusal_cases():
    for active, n_own, which, point, ack_after in itertools.product((False, True), (1, 2), (0, 1), ('sent', 'mid', 'queued'), (False, True)):
        if which >= n_own:
            continue
        yield {'kind': 'refusal', 'active': active, 'own': [30, 12][:n_own], 'which': which, 'point': point, 'ack_after': ack_after}


def execute_refusal(case, out):
    ''' A scripted peer refuses one of the endpoint's own transfers (XFER_REFUSE, a legitimate message): while it is
    still queued behind another one, in the middle of its segments, or after its last segment and before the final
    ACK; it then acknowledges everything else and, optionally, the refused transfer as well (the ACK was already on
    its way).  The D-Bus view must stay consistent. '''
    from vlib import tcpcl_world as tw, ref9174 as r, strat9174 as s9
    import dbus
    active = bool(case['active'])
    point = case['point']
    # mid / queued need the endpoint to be held back: a small pipe that the peer reads only when it wants to
    cap = None if point == 'sent' else 40
    cfg = tw.make_config('dtn://real/', segment_size_tx_initial=10 if cap is None else 1000)
    world = tw.World(cfg, scripted=True, real_is_passive=not active, cap_ab=cap if active else None, cap_ba=None if active else cap)
    end = world.real
    hdl = end.hdl
    own = []
    for idx, length in enumerate(case['own'][:2]):
        data = s9.content(int(length) if cap is None else int(length) + 30000, idx + 1)
        own.append((str(end.call('send_bundle_data', dbus.ByteArray(data))), data))
    target = own[min(int(case['which']), len(own) - 1)][0]

    def peer_reads():
        for _ in range(400):
            world.settle()
            if not world.rx_pipe.readable:
                break
            del world.rx_pipe.readable[:]

    def wire():
        return r.parse_stream(world.real_wire())[0]
    world.settle()
    world.peer_send(r.encode({'t': 'CH', 'magic': r.MAGIC.hex(), 'version': 4, 'flags': 0}))
    world.settle()
    world.peer_send(r.encode({'t': 'SESS_INIT', 'keepalive': 0, 'segment_mru': 1000 if cap else 10, 'transfer_mru': 2 ** 40,
                              'nodeid': 'dtn://peer/', 'ext': []}))
    world.settle()
    if point == 'sent':
        peer_reads()          # everything is written, nothing acknowledged
    elif point == 'mid':
        # the peer reads just until the first segment of the target transfer is on the wire
        for _ in range(4000):
            if any(m['t'] == 'XFER_SEGMENT' and str(m['id']) == target for m in wire()):
                break
            world.settle()
            if not world.rx_pipe.readable:
                break
            del world.rx_pipe.readable[:]
    ended = set(m['id'] for m in wire() if m['t'] == 'XFER_SEGMENT' and m['flags'] & 1)
    started = set(m['id'] for m in wire() if m['t'] == 'XFER_SEGMENT')
    situation = 'sent' if int(target) in ended else ('mid' if int(target) in started else 'queued')
    out.label('refused-when:' + situation)
    # a transfer that has not started is unknown to the peer (its ID has never been on the wire): the refusal is an
    # out-of-place message (C17), the transfer is unaffected, and the peer goes on to acknowledge it like the others
    # (what counts is whether the session layer has started it: a first segment waiting in the connection buffer behind
    # a full pipe is as good as sent, the endpoint cannot know how far TCP got)
    void = int(target) in hdl._tx_map and hdl._tx_map[int(target)] in hdl._tx_pend_start
    if void:
        out.label('refusal-names-unstarted-transfer')
    world.peer_send(r.encode({'t': 'XFER_REFUSE', 'reason': int(case.get('reason', 2)), 'id': int(target)}))
    peer_reads()
    # the peer now acknowledges every segment (of the refused transfer only if ack_after)
    acked = 0
    for _ in range(400):
        segs = [m for m in wire() if m['t'] == 'XFER_SEGMENT']
        cum = {}
        sent_any = False
        for idx, seg in enumerate(segs):
            if seg['flags'] & 2:
                cum[seg['id']] = 0
            cum[seg['id']] = cum.get(seg['id'], 0) + len(seg['data']) // 2
            if idx >= acked:
                acked = idx + 1
                if str(seg['id']) == target and not case.get('ack_after') and not void:
                    continue
                try:
                    world.peer_send(r.encode({'t': 'XFER_ACK', 'flags': seg['flags'], 'id': seg['id'], 'length': cum[seg['id']]}))
                    sent_any = True
                except OSError:
                    pass
        peer_reads()
        if not sent_any and acked == len([m for m in wire() if m['t'] == 'XFER_SEGMENT']):
            break
    # (C04 runs the same scenario and judges the octets the endpoint wrote)
    out.refusal_trace = dict(real=world.real_wire(), peer=bytes(world.peer_sock.tx.log), target=int(target), void=void, situation=situation)
    for esc in world.escapes():
        out.fail('escape:%s@%s' % (esc.exc_type, esc.frame), 'exception escaped an event-loop callback: %s: %s' % (esc.exc_type, esc.exc_msg[:120]))
    for ev in dbus.RECORDER.events:
        if ev.get('error') and ev['kind'] in ('signal', 'return'):
            out.fail('does-not-marshal:%s' % ev['member'], '%s %s%r does not fit %r: %s' % (ev['kind'], ev['member'], ev.get('args'), ev.get('signature'), ev['error']))
    desc = 'transfer %s refused when %s, ack afterwards %s, own transfers %s' % (target, situation, bool(case.get('ack_after')), [b for b, _d in own])
    if end.sock.closed:
        out.label('closed')
        return
    fin = {}
    for ev in end.signals('send_bundle_finished'):
        fin.setdefault(str(ev['args'][0]), []).append(ev['args'][2])
    for bid, _data in own:
        results = fin.get(bid, [])
        if len(results) > 1:
            out.fail('finished-twice', 'send_bundle_finished was signalled %d times for transfer %s: %s (%s)' % (len(results), bid, results, desc))
        elif not results:
            out.fail('never-finished', 'transfer %s has no finished signal although it was %s (%s)' % (bid, 'refused' if bid == target and not void else 'acknowledged', desc))
        elif bid == target and void and results[0] != 'success':
            out.fail('unstarted-transfer-affected', 'transfer %s had not started when the peer named it in a refusal; it was sent and acknowledged '
                     'completely afterwards, yet finished as %r (%s)' % (bid, results[0], desc))
        elif bid == target and results[0] == 'success' and situation != 'sent' and not void:
            out.fail('refused-reported-success', 'transfer %s was refused before its last segment left, yet reported %r (%s)' % (bid, results[0], desc))
        elif bid != target and results[0] != 'success':
            out.fail('other-transfer-affected', 'transfer %s was acknowledged completely but finished as %r (%s)' % (bid, results[0], desc))
    queue = end.call('send_bundle_get_queue')
    if not hasattr(queue, 'exc') and [str(x) for x in queue]:
        out.fail('send-queue-lists-finished', 'send_bundle_get_queue() still lists %s after every transfer finished (%s)' % ([str(x) for x in queue], desc))
    idle = end.call('is_sess_idle')
    if not hasattr(idle, 'exc') and not idle and not world.escapes():
        out.fail('never-idle-after-refusal', 'everything is finished and drained but is_sess_idle() is False (%s)' % desc)
    out.nontrivial = True


def execute_peer_values(case, out):
    ''' A scripted peer chooses every value it may choose at an extreme of its wire range; everything the endpoint
    then signals and returns must marshal, and the receive queue must show the transfers. '''
    from vlib import tcpcl_world as tw, ref9174 as r, strat9174 as s9
    import dbus
    active = bool(case['active'])
    cfg = tw.make_config('dtn://real/')
    world = tw.World(cfg, scripted=True, real_is_passive=not active)
    end = world.real
    world.settle()
    world.peer_send(r.encode({'t': 'CH', 'magic': r.MAGIC.hex(), 'version': 4, 'flags': 0}))
    world.settle()
    world.peer_send(r.encode({'t': 'SESS_INIT', 'keepalive': case['keepalive'], 'segment_mru': case['segment_mru'],
                              'transfer_mru': case['transfer_mru'], 'nodeid': case['nodeid'], 'ext': []}))
    world.settle()
    end.call('get_session_parameters')
    sent = {}
    for tid, dlen, total, nseg in case['xfers']:
        if tid in sent:
            continue     # (transfer IDs are unique within a session)
        data = b''
        for idx in range(nseg):
            chunk = s9.content(dlen, tid % 1000 + idx)
            flags = (2 if idx == 0 else 0) | (1 if idx == nseg - 1 else 0)
            msg = {'t': 'XFER_SEGMENT', 'flags': flags, 'id': tid, 'data': chunk.hex()}
            if idx == 0:
                msg['ext'] = [] if total is None else [r.transfer_length_ext(dlen * nseg if total == 'true' else total)]
            data += chunk
            world.peer_send(r.encode(msg))
            world.settle()
        sent[tid] = data
        out.label('announced-total:%s' % ('none' if total is None else ('true' if total == 'true' else 'other')))
        end.call('recv_bundle_get_queue')
        end.call('is_sess_idle')
    for esc in world.escapes():
        out.fail('escape:%s@%s' % (esc.exc_type, esc.frame), 'exception escaped an event-loop callback: %s: %s (peer values %s)'
                 % (esc.exc_type, esc.exc_msg[:120], {k: v for k, v in case.items() if k != 'kind'}))
    for ev in dbus.RECORDER.events:
        if ev.get('error') and ev['kind'] in ('signal', 'return'):
            out.fail('does-not-marshal:%s' % ev['member'], '%s %s%r does not fit %r: %s' % (ev['kind'], ev['member'], ev.get('args'), ev.get('signature'), ev['error']))
    out.nontrivial = any(t >= 2 ** 31 for t, _d, _t, _n in case['xfers']) or any(isinstance(t, int) and t >= 2 ** 31 for _i, _d, t, _n in case['xfers'])
    if end.sock.closed or world.escapes():
        out.label('closed-or-escaped')
        return
    finished = [str(ev['args'][0]) for ev in end.signals('recv_bundle_finished')]
    queue = end.call('recv_bundle_get_queue')
    if not hasattr(queue, 'exc'):
        if sorted(str(x) for x in queue) != sorted(finished):
            out.fail('recv-queue-inconsistent', 'recv_bundle_get_queue() lists %s, finished and unpopped are %s' % ([str(x) for x in queue], finished))
    if sorted(finished) != sorted(str(t) for t in sent):
        out.fail('finished-transfer-not-announced', 'the peer completed transfers %s, recv_bundle_finished announced %s' % (sorted(sent), finished))
    for tid, data in sent.items():
        if str(tid) not in finished:
            continue
        res = end.call('recv_bundle_pop_data', str(tid))
        if hasattr(res, 'exc'):
            out.fail('pop-error', 'popping the announced transfer %s failed: %s' % (tid, res.exc))
        elif bytes(res) != data:
            out.fail('pop-data-differs', 'transfer %s pops as %d octets, the peer sent %d' % (tid, len(bytes(res)), len(data)))
    idle = end.call('is_sess_idle')
    if not hasattr(idle, 'exc') and not idle:
        out.fail('never-idle-after-drain', 'every transfer of the peer completed and was popped but is_sess_idle() is False')


def execute_stack(case, out):
    ''' The BP-side adaptor (bp/cla.py) as the consumer of the transfer signals. '''
    from vlib import stack_world as sw
    import dbus
    world, info = sw.drive(case, out)
    try:
        world.pump()
        world.advance(1000)
        wire = {}
        for xfer in world.transfers() + world.udp_bundles() + world.btpu_bundles():
            if xfer['complete'] and xfer['dst'] is not None:
                wire.setdefault(xfer['dst'], []).append(xfer['data'])
        for index, host in world.hosts.items():
            pool = list(wire.get(index, []))
            for cltype, data in host.handed:
                out.count('handed-to-bp')
                if data in pool:
                    pool.remove(data)
                elif case.get('netfault') and data in wire.get(index, []):
                    # an impaired datagram network delivered the datagrams of this bundle twice: the convergence layer
                    # announces (under a new ID) and hands over a second copy
                    out.count('handed-again-after-network-duplicate')
                else:
                    out.fail('handed-not-on-wire', 'the %s adaptor of n%d handed %d octets to the BP agent that no peer sent (or handed '
                             'them twice)' % (cltype, index, len(data)))
            if pool and not info['closed']:
                out.fail('finished-transfer-not-handed', '%d transfer(s) completed on the wire towards n%d but never reached its BP agent '
                         '(no connection was closed abruptly): ops %s' % (len(pool), index, case['ops']))
            # nothing is left in a receive queue: every finished transfer was popped by the adaptor
            for hdl in host.contacts():
                left = list(hdl.recv_bundle_get_queue())
                if left:
                    out.fail('receive-queue-not-drained', 'contact %s of n%d still lists %s after the adaptor handled every signal'
                             % (hdl.object_path, index, left))
            for name, agent in (('UDPCL', host.udpcl), ('BTP-U', host.btpu)):
                left = list(agent.recv_bundle_get_queue())
                if left:
                    out.fail('receive-queue-not-drained', '%s agent of n%d still lists %s after the adaptor handled every signal' % (name, index, left))
        # the bus view and reality: every TCP connection a node still holds open at quiescence is a contact that its TCPCL
        # agent lists (a contact may be listed longer than its connection lives - an unpopped bundle - never the reverse)
        from vlib import tcpcl_world as tw
        for index, host in world.hosts.items():
            open_socks = 0
            for ent in world.net.links:
                link = ent['link']
                if ent['a'][0] == host.address and not link.sock_a.closed:
                    open_socks += 1
                if ent['b'][0] == host.address and not link.sock_b.closed:
                    open_socks += 1
            listed = tw.dbuscall(host.tctx, host.tcpcl, 'get_connections')
            if not hasattr(listed, 'exc') and len(list(listed)) < open_socks:
                out.fail('connection-without-contact', 'n%d holds %d open TCP connection(s), get_connections() lists %d contact(s) %s: ops %s'
                         % (index, open_socks, len(list(listed)), [str(x) for x in listed], case['ops']))
        for ev in dbus.RECORDER.events:
            if ev.get('error') and ev['kind'] in ('signal', 'return'):
                out.fail('does-not-marshal:%s' % ev['member'], '%s %s%r does not fit %r: %s'
                         % (ev['kind'], ev['member'], ev.get('args'), ev.get('signature'), ev['error']))
        for call in dbus.bus.VBUS.calls:
            out.count('bus-call:' + call['member'])
            if call['error'] and 'TypeError' in call['error']:
                out.fail('bus-call-type-error:%s' % call['member'], 'call %s%r over the bus failed on type grounds: %s'
                         % (call['member'], call['args'], call['error']))
        for esc in world.escapes():
            out.count('stack-escape:%s@%s' % (esc.exc_type, esc.frame))
        out.label('stack')
        out.nontrivial = (info['cut_after_traffic'] and info['resend_after_cut']) or world.net_duplicated > 0 or world.net_reordered > 0
        if world.net_duplicated:
            out.label('stack:datagrams-duplicated')
        if world.net_reordered:
            out.label('stack:datagrams-reordered')
    finally:
        world.close()


def execute(case):
    out = Outcome()
    if case.get('kind') == 'stack':
        execute_stack(case, out)
        return out
    if case.get('kind') == 'peer-values':
        execute_peer_values(case, out)
        return out
    if case.get('kind') == 'refusal':
        execute_refusal(case, out)
        out.label('tcpcl-refusal')
        return out
    if case.get('kind') == 'udpcl':
        from vlib import udpcl_machine as um
        um.judge_dbus(case, out)
        return out
    from vlib import tcpcl_machine as tm
    trace = tm.execute(case)
    mid = judge_tcpcl(trace, out)
    out.nontrivial = bool(mid)
    out.labels = sorted(trace.labels) + ['tcpcl']
    names = sorted(set(e['member'] for e in trace.events if e['kind'] == 'signal'))
    for name in names:
        out.label('signal:' + name)
    for _s, _side, name, _res, _snap in trace.queries:
        out.label('query:' + name)
    return out
