''' C09 - TCPCL termination is graceful, complete and always finishes. '''
import itertools
import random

from hypothesis import strategies as st

from vlib import boot
from vlib.engine import Outcome

PROPERTY = 'C09'
RULE = ('Two-endpoint histories as in C01 with user terminate() / close() calls and peer-vanishes faults placed at '
        'arbitrary points (before contact, during negotiation, idle, mid-segment, awaiting ACK, both sides in the same '
        'history), then no further user action and a fair drain with unlimited network capacity.  In addition an '
        'exhaustive placement of one terminate() (each side) at every scheduler step of fixed base scenarios. '
        'Oracle over the D-Bus event log and both octet logs: graceful runs complete every started transfer with '
        'recv_bundle_finished and send_bundle_finished(success); no START after own SESS_TERM; exactly one SESS_TERM per '
        'side with REPLY <=> that side did not itself request termination; every accepted but never started bundle gets '
        'exactly one non-success send_bundle_finished; both sockets closed and both connection_closed emitted at '
        'quiescence (bounded-step liveness).  (agent) one real tcpcl.agent.Agent with 1-4 contacts, each to its own '
        'scripted peer and each in one of the states connecting / contact headers exchanged / established / own transfer '
        'in progress / already terminating / own transfer that the peer will refuse (before, or only after, its SESS_TERM reply), active or passive, gets shutdown() or stop(); afterwards every peer cooperates '
        'fully (handshake, ACKs, SESS_TERM reply, closes only after the endpoint).  All combinations of up to 2 (quick) / 3 '
        '(thorough) contacts are enumerated.  Oracle: after stop() every contact is closed at once; after shutdown() '
        'every contact ends closed and the agent stops, a contact that was in a session wrote exactly one SESS_TERM and '
        'finished the transfer it had in progress; no exception escapes.  Non-trivial = terminate accepted while a transfer was mid-flight or a '
        'bundle was queued, or an agent case with >= 2 contacts in different states; distinct by SHA-1 of the case.')
SHRINK_KEYS = ('ops',)
ASSUMPTIONS = [
    'liveness is checked as quiescence of a fair drain within 6000 rounds (virtual loop), not as unbounded liveness',
    'keepalive/idle timers off (C14 owns them) except in the hung-peer agent cases; some histories run over the scripted TLS socket',
    'a terminate() call that the endpoint refuses with an error reply counts as declined, not as a request',
]
EXHAUSTIVE_PART = 'one terminate() per side at every scheduler step index of the fixed base scenarios; shutdown()/stop() over every combination of contact state x role for up to 2 (quick) / 3 (thorough) contacts'


def prepare():
    boot.tcpcl()


def budgets(tier):
    if tier == 'quick':
        return dict(shards=16, examples=150)
    return dict(shards=16, examples=6000, deadline_s=3000)


def strategy(tier):
    from vlib import tcpcl_machine as tm, tcpcl_agentworld as aw
    contact = st.tuples(st.sampled_from(aw.STATES), st.booleans()).map(list)
    agent = st.fixed_dictionaries({'kind': st.just('agent'), 'contacts': st.lists(contact, min_size=1, max_size=4),
                                   'action': st.sampled_from(['shutdown', 'shutdown', 'stop']), 'late_accept': st.booleans()})
    return st.one_of(tm.cases(max_ops=14 if tier == 'quick' else 24, terminate=True, closes=True, vanish=True),
                     tm.cases(max_ops=14 if tier == 'quick' else 24, terminate=True, closes=True, vanish=True),
                     tm.cases(max_ops=14 if tier == 'quick' else 24, terminate=True, closes=True, vanish=True), agent)


def _base_scenarios(count):
    rnd = random.Random(90210)
    out = []
    for idx in range(count):
        seg_a = rnd.choice([1, 2, 3, 7, 64])
        seg_b = rnd.choice([1, 2, 3, 7, 64])
        cfg = {'a': dict(seg_init=seg_a, mru=rnd.choice([2, 3, 7, 64]), keepalive=0, idle=0),
               'b': dict(seg_init=seg_b, mru=rnd.choice([2, 3, 7, 64]), keepalive=0, idle=0),
               'cap_ab': rnd.choice([None, 5, 64]), 'cap_ba': rnd.choice([None, 5, 64]),
               'regime': rnd.choice(['fair', 'bytewise', 'bursty']), 'priv_ext': False}
        ops = []
        if idx % 3:
            ops.append(['estab'])
        ops.append(['send', 'A', rnd.choice([1, 5, 12, 20]), idx * 10 + 1])
        if idx % 2:
            ops.append(['send', 'B', rnd.choice([1, 4, 9]), idx * 10 + 2])
        if idx % 4 == 0:
            ops.append(['send', 'A', rnd.choice([3, 8]), idx * 10 + 3])
        for _ in range(rnd.choice([10, 18, 26])):
            ops.append(['run', [rnd.randrange(256), rnd.randrange(256)]])
        out.append({'cfg': cfg, 'ops': ops})
    return out


def enumerate_cases(tier):
    for case in agent_cases(2 if tier == 'quick' else 3):
        yield case
    for base in _base_scenarios(5 if tier == 'quick' else 30):
        for pos in range(len(base['ops']) + 1):
            for side in ('A', 'B'):
                ops = base['ops'][:pos] + [['term', side, 0]] + base['ops'][pos:]
                yield {'cfg': base['cfg'], 'ops': ops}
            # both sides in the same step
            ops = base['ops'][:pos] + [['term', 'A', 0], ['term', 'B', 3]] + base['ops'][pos:]
            yield {'cfg': base['cfg'], 'ops': ops}


def pinned_cases():
    yield 'agent-shutdown-mixed', {'kind': 'agent', 'action': 'shutdown',
                                   'contacts': [['ending', False], ['negotiating', True], ['transfer', False]]}
    yield 'agent-shutdown-refused-after-term-reply', {'kind': 'agent', 'action': 'shutdown', 'contacts': [['refused-late', False]]}
    yield 'agent-stop-three', {'kind': 'agent', 'action': 'stop',
                               'contacts': [['established', False], ['established', True], ['established', False]]}
    cfg = {'a': dict(seg_init=3, mru=7, keepalive=0, idle=0), 'b': dict(seg_init=2, mru=2, keepalive=0, idle=0),
           'cap_ab': None, 'cap_ba': None, 'regime': 'fair', 'priv_ext': False}
    yield 'term-idle', {'cfg': cfg, 'ops': [['estab'], ['term', 'A', 0]]}
    yield 'term-mid', {'cfg': cfg, 'ops': [['estab'], ['send', 'A', 11, 1], ['send', 'A', 4, 2], ['run', [0, 0, 0]],
                                           ['term', 'B', 0]]}
    yield 'term-both', {'cfg': cfg, 'ops': [['estab'], ['send', 'B', 9, 1], ['term', 'A', 0], ['term', 'B', 0]]}
    cfg2 = dict(cfg, cap_ab=5, cap_ba=1, regime='bytewise')
    yield 'term-backpressure', {'cfg': cfg2, 'ops': [['estab'], ['send', 'A', 40, 1], ['run', list(range(30))],
                                                     ['term', 'A', 0]]}


def judge(trace, out):
    from vlib import tcpcl_machine as tm
    from vlib import ref9174 as r
    world = trace.world
    tm.escapes_to(out, trace)
    accepted = [(seq, side) for (seq, side, _reason, res) in trace.term_calls if not hasattr(res, 'exc')]
    declined = [(seq, side) for (seq, side, _reason, res) in trace.term_calls if hasattr(res, 'exc')]
    abrupt = bool(trace.close_calls or trace.vanished)
    if declined:
        trace.labels.add('terminate-declined')
    if abrupt:
        trace.labels.add('abrupt')
    requested = {side for _seq, side in accepted}
    any_term = bool(accepted)

    if trace.drain_rounds is None:
        out.fail('no-quiescence', 'fair drain did not reach quiescence within the step bound')
        return

    for sender, direction in (('A', 'ab'), ('B', 'ba')):
        receiver = tm.other(sender)
        msgs, _used, status = trace.wire[direction]
        if status.startswith('invalid'):
            out.fail('wire-invalid', 'octets written by %s are not RFC 9174 messages: %s' % (sender, status))
        terms = [m for m in msgs if m['t'] == 'SESS_TERM']
        if len(terms) > 1:
            out.fail('second-sess-term', '%s sent SESS_TERM %d times' % (sender, len(terms)))
        peer_terms = [m for m in trace.wire['ba' if direction == 'ab' else 'ab'][0] if m['t'] == 'SESS_TERM']
        if terms:
            is_reply = bool(terms[0]['flags'] & r.TERM_REPLY)
            if sender in requested and is_reply:
                out.fail('reply-flag-on-request', '%s requested termination itself but marked its SESS_TERM as reply' % sender)
            if sender not in requested and not is_reply:
                out.fail('reply-flag-missing', '%s answered the peer SESS_TERM without the REPLY flag' % sender)
            if sender not in requested and not peer_terms:
                out.fail('unsolicited-sess-term', '%s sent SESS_TERM although nobody asked' % sender)
        if any_term and not abrupt and len(terms) != 1:
            both_estab = all(any(e['args'][0] == 'established' for e in tm.signals_of(trace, sd, 'session_state_changed'))
                             for sd in ('A', 'B'))
            if both_estab:
                out.fail('sess-term-missing', '%s sent %d SESS_TERM messages in a gracefully terminated session'
                         % (sender, len(terms)))
        # no new transfer after own SESS_TERM
        seen_term = False
        started = []
        for msg in msgs:
            if msg['t'] == 'SESS_TERM':
                seen_term = True
            elif msg['t'] == 'XFER_SEGMENT' and msg['flags'] & r.SEG_START:
                started.append(str(msg['id']))
                if seen_term:
                    out.fail('start-after-own-sess-term', '%s started transfer %d after its own SESS_TERM' % (sender, msg['id']))
        # bookkeeping of queued bundles
        queued = [(str(res), data) for (res, data, _s) in trace.sent[sender] if not hasattr(res, 'exc')]
        sfin = {}
        for ev in tm.signals_of(trace, sender, 'send_bundle_finished'):
            sfin.setdefault(str(ev['args'][0]), []).append(ev['args'][2])
        rfin = [e['args'][0] for e in tm.signals_of(trace, receiver, 'recv_bundle_finished')]
        for bid, data in queued:
            results = sfin.get(bid, [])
            if len(results) > 1:
                out.fail('send-finished-twice', 'transfer %s of %s got %d finished signals: %s' % (bid, sender, len(results), results))
            if bid in started:
                if not abrupt:
                    # graceful: everything that started must complete and be acknowledged
                    if bid not in rfin:
                        out.fail('started-transfer-not-completed', 'transfer %s of %s was on the wire but never completed at '
                                 'the peer (graceful termination)' % (bid, sender))
                    elif results != ['success']:
                        out.fail('started-transfer-no-success', 'transfer %s of %s completed at the peer but the sender '
                                 'reported %s' % (bid, sender, results or 'nothing'))
            else:
                if any_term and not abrupt and len(results) == 0:
                    out.fail('queued-bundle-silently-lost', 'bundle %s queued on %s was never started and never reported '
                             'as not sent' % (bid, sender))
                if results and results[0] == 'success':
                    out.fail('never-sent-but-success', 'bundle %s of %s never appeared on the wire but was reported success' % (bid, sender))
        if abrupt and world.ends[sender].sock.closed:
            # the connection went away under the session (close() or loss of the peer): what was accepted for sending is
            # still accounted for, and nothing is started on the dead connection
            closed_seq = [e['seq'] for e in world.ends[sender].agent_signals('connection_closed')]
            for bid, data in queued:
                if not sfin.get(bid):
                    out.fail('bundle-never-reported-after-abrupt-end', 'bundle %s accepted by %s got no send_bundle_finished at all '
                             'although the connection is gone (%s)' % (bid, sender, 'it had started' if bid in started else 'it never started'))
                    break
            if closed_seq:
                late = [e['args'][0] for e in tm.signals_of(trace, sender, 'send_bundle_started') if e['seq'] > min(closed_seq)]
                if late:
                    out.fail('transfer-started-after-close', '%s announced send_bundle_started for %s after its connection had closed'
                             % (sender, late))
        if not any_term and not abrupt:
            missing = [bid for bid, _d in queued if bid not in rfin]
            if missing:
                out.fail('lost', 'no termination requested but bundles %s of %s never arrived' % (missing, sender))

    # liveness / no half-open session
    if any_term or abrupt:
        for side in ('A', 'B'):
            end = world.ends[side]
            if not end.sock.closed:
                other = world.ends[tm.other(side)]
                out.fail('half-open', 'at quiescence endpoint %s still has its socket open (state %s, peer closed=%s, '
                         'in_term=%s, rx_buf=%d, tx_buf=%d, pend_start=%d, pend_ack=%d)'
                         % (side, end.hdl._state, other.sock.closed, end.hdl._in_term, end.hdl.recv_buffer_used(),
                            end.hdl.send_buffer_used(), len(end.hdl._tx_pend_start), len(end.hdl._tx_pend_ack)))
            elif not end.agent_signals('connection_closed'):
                out.fail('no-connection-closed-signal', 'endpoint %s closed its socket without connection_closed' % side)
    # the wire must not end inside a message after a graceful termination
    if any_term and not abrupt:
        for sender, direction in (('A', 'ab'), ('B', 'ba')):
            if trace.wire[direction][2] == 'partial':
                out.fail('wire-truncated', 'the octet stream of %s ends inside a message after graceful termination' % sender)

    # non-trivial: a terminate was accepted while something was in flight or queued
    for seq, side in accepted:
        for snd in ('A', 'B'):
            started_before = [e for e in tm.signals_of(trace, snd, 'send_bundle_started') if e['seq'] <= seq]
            finished_before = [e for e in tm.signals_of(trace, snd, 'send_bundle_finished') if e['seq'] <= seq]
            queued_before = [1 for (res, _d, s) in trace.sent[snd] if s <= seq and not hasattr(res, 'exc')]
            if len(started_before) > len(finished_before):
                trace.labels.add('term-mid-flight')
            if len(queued_before) > len(started_before):
                trace.labels.add('term-with-queue')
    if len(requested) == 2:
        trace.labels.add('term-both-sides')
    if any_term:
        trace.labels.add('term-accepted')


def agent_cases(max_contacts):
    ''' Agent.shutdown() / Agent.stop() over every combination of contact states. '''
    from vlib import tcpcl_agentworld as aw
    kinds = [[state, passive] for state in aw.STATES for passive in (False, True)]
    for count in range(1, max_contacts + 1):
        for combo in itertools.product(kinds, repeat=count):
            for action in ('shutdown', 'stop'):
                yield {'kind': 'agent', 'contacts': [list(c) for c in combo], 'action': action}
            if count == 1:
                yield {'kind': 'agent', 'contacts': [list(c) for c in combo] + [[aw.PEER_AHEAD, False]], 'action': 'shutdown'}
                yield {'kind': 'agent', 'contacts': [list(c) for c in combo], 'action': 'shutdown', 'late_accept': True}
                yield {'kind': 'agent', 'contacts': [list(c) for c in combo], 'action': 'shutdown', 'late_connect': True}
            if count <= 2:
                # the peer of the first contact hangs from the moment of the shutdown on (connection open, nothing sent
                # any more); with an idle time configured no contact may stay half-open
                yield {'kind': 'agent', 'contacts': [list(c) for c in combo], 'action': 'shutdown', 'hang': [0], 'idle': 5}


def execute_agent(case):
    ''' One real agent, several contacts, shutdown() or stop(): nothing may be left open. '''
    from vlib import tcpcl_agentworld as aw
    out = Outcome()
    world = aw.AgentWorld(case['contacts'], idle_time=case.get('idle', 0), hang=case.get('hang', ()))
    world.prepare()
    action = case['action']
    desc = '%s with contacts %s' % (action, ['%s/%s' % (c.state, 'passive' if c.passive else 'active') for c in world.contacts])
    ret = world.call_agent(action)
    for _ in range(50):
        if not world.end.ctx.iterate():
            break
    late = None
    if case.get('late_accept') and action == 'shutdown' and not world.stops:
        # while the agent waits for its sessions to end, a further peer connects to one of its listening sockets
        late = world.late_accept()
        desc += ' + a peer connecting during the wait'
        out.label('late-accept')
    if case.get('late_connect') and action == 'shutdown' and not world.stops:
        # while the agent waits for its sessions to end it is asked to make a new connection (Agent.connect)
        late = world.late_connect()
        desc += ' + a connect() during the wait'
        out.label('late-connect:refused' if late.hdl is None else 'late-connect:made')
    if action == 'stop':
        left = [c.index for c in world.contacts if not c.real_sock.closed]
        if left:
            out.fail('agent-stop-leaves-contacts-open', 'stop() returned but contacts %s are still open (%s)' % (left, desc))
        if not world.stops:
            out.fail('agent-stop-not-signalled', 'stop() did not run the on-stop callback (%s)' % desc)
    quiet = world.release()
    if case.get('hang'):
        quiet = world.advance(4000 * case['idle']) and quiet
        out.label('hung-peer')
    if not quiet:
        out.fail('agent-never-quiescent', 'the agent and its cooperative peers never came to rest (%s)' % desc)
    for esc in world.escapes():
        out.fail('escape:%s@%s' % (esc.exc_type, esc.frame), 'exception escaped an event-loop callback (%s): %s: %s'
                 % (desc, esc.exc_type, esc.exc_msg[:120]))
    if action == 'shutdown':
        if hasattr(ret, 'exc'):
            out.label('shutdown-error-reply')
        elif ret and not world.stops:
            out.fail('shutdown-claims-stopped', 'shutdown() returned True (stopped immediately) but the agent did not stop (%s)' % desc)
        left = [(c.index, c.state, c.hdl._state if c.hdl is not None else None) for c in world.contacts if not c.real_sock.closed]
        if left:
            out.fail('shutdown-leaves-contact-open', 'after shutdown() and full cooperation of every peer the contacts %s '
                     '(index, state at shutdown, state now) are still open (%s; shutdown returned %r)' % (left, desc, ret))
        elif not world.stops:
            out.fail('shutdown-agent-never-stops', 'every contact closed after shutdown() but the agent never stopped (%s)' % desc)
        for con in world.contacts:
            msgs = con.wire()
            terms = [m for m in msgs if m['t'] == 'SESS_TERM']
            if con.was_established_at_action:
                if len(terms) != 1:
                    out.fail('shutdown-sess-term-count', 'contact %d (%s) was in a session at shutdown and wrote %d SESS_TERM (%s)'
                             % (con.index, con.state, len(terms), desc))
            elif len(terms) > 1:
                out.fail('shutdown-sess-term-count', 'contact %d (%s) wrote %d SESS_TERM (%s)' % (con.index, con.state, len(terms), desc))
            if con.state == aw.PEER_AHEAD:
                # the peer's transfer was under way when shutdown() was called (its first segment already written): it completes
                fin = [e['args'] for e in dbus_signals(con.hdl, 'recv_bundle_finished')]
                if not any(str(a[0]) == '77' and a[2] == 'success' for a in fin):
                    out.fail('shutdown-aborts-peer-transfer', 'contact %d: the peer had started a transfer (SESS_INIT and its first segment on '
                             'their way) when shutdown() was called; it never completed: receive signals %s, state at shutdown %s (%s)'
                             % (con.index, fin, 'session-negotiating', desc))
            if con.state in aw.REFUSING and not hasattr(con.own_id, 'exc') and con.index not in case.get('hang', ()):
                fin = [e for e in dbus_signals(con.hdl, 'send_bundle_finished') if e['args'][0] == str(con.own_id)]
                if len(fin) != 1 or fin[0]['args'][2] == 'success':
                    out.fail('shutdown-refused-transfer-report', 'contact %d: the peer refused the completely sent bundle after shutdown(); '
                             'finished signals %s (%s)' % (con.index, [e['args'][2] for e in fin], desc))
            if con.state == 'transfer' and not hasattr(con.own_id, 'exc') and con.index not in case.get('hang', ()):
                data = b''.join(bytes.fromhex(m['data']) for m in msgs if m['t'] == 'XFER_SEGMENT' and m['id'] == int(con.own_id))
                fin = [e for e in dbus_signals(con.hdl, 'send_bundle_finished') if e['args'][0] == str(con.own_id)]
                if data != aw.BUNDLE or not any(e['args'][2] == 'success' for e in fin):
                    out.fail('shutdown-drops-transfer-in-progress', 'contact %d had a transfer in progress at shutdown: %d of %d octets '
                             'were sent, finished signals %s (%s)' % (con.index, len(data), len(aw.BUNDLE), [e['args'][2] for e in fin], desc))
    states = sorted(set(c.state for c in world.contacts))
    out.nontrivial = len(world.contacts) >= 2 and len(states) >= 2
    out.label('agent:' + action, 'contacts:%d' % len(world.contacts))
    for st_name in states:
        out.label('contact-state:' + st_name)
    return out


def dbus_signals(obj, member):
    import dbus
    # (what an observer on the bus gets: a signal raised by an object that has left the bus goes nowhere)
    return [e for e in dbus.RECORDER.events if e['kind'] == 'signal' and e['obj'] is obj and e['member'] == member and e.get('exported', True)]


def execute(case):
    if case.get('kind') == 'agent':
        return execute_agent(case)
    from vlib import tcpcl_machine as tm
    out = Outcome()
    trace = tm.execute(case)
    judge(trace, out)
    out.labels = sorted(trace.labels)
    out.nontrivial = bool({'term-mid-flight', 'term-with-queue'} & trace.labels)
    return out
