''' C04 - TCPCL endpoints only emit RFC 9174-legal message sequences. '''
from hypothesis import strategies as st

from vlib import boot
from vlib.engine import Outcome

PROPERTY = 'C04'
RULE = ('Same two-endpoint history generator as C01 plus user terminate() calls at arbitrary points (and an enumerated set of handshakes during which the virtual clock passes a configured keepalive interval) and the '
        'private-extension test mode on/off.  Oracle: a monitor automaton per direction over the octet log parsed by '
        'the independent RFC 9174 decoder: CH, SESS_INIT, then only XFER_*/KEEPALIVE/MSG_REJECT, at most one SESS_TERM, '
        'no START after own SESS_TERM; per transfer: contiguous segments, START first with Transfer-Length == sum of '
        'data, END only last, fresh ids; every segment <= the peer segment MRU read from the opposite log; the k-th '
        'XFER_ACK echoes flags/id of the k-th received segment with the cumulative length.  Non-trivial = a direction '
        'carried >= 2 transfers of which one had >= 2 segments; distinct by SHA-1 of the case.  (refusal) one endpoint against a scripted '
        'peer that refuses one of its transfers (queued / in the middle of its segments / completely sent; each refusal reason code; with or '
        'without a late ACK) and acknowledges the rest: the same monitor over what the endpoint wrote; a refused transfer may stop without an '
        'END segment, its ID is never used again.')
SHRINK_KEYS = ('ops',)
ASSUMPTIONS = [
    'independent RFC 9174 parser vlib/ref9174.py',
    'virtual GLib loop and simulated TCP as in C01 (some histories with the scripted TLS socket on both sides); keepalive/idle timers off except in the enumerated handshake cases',
]

NEW_AFTER_TERM = 'start-after-own-sess-term'


def prepare():
    boot.tcpcl()


def budgets(tier):
    if tier == 'quick':
        return dict(shards=16, examples=150)
    return dict(shards=16, examples=4500, deadline_s=3000)


def strategy(tier):
    from vlib import tcpcl_machine as tm
    free = tm.cases(max_ops=14 if tier == 'quick' else 24, terminate=True, keepalive=True)
    return st.one_of(free, free, free, tm.timer_midmessage_cases(terminate=True))


def enumerate_cases(tier):
    for case in refusal_cases():
        yield case
    for case in _enumerate_timing(tier):
        yield case


def _enumerate_timing(tier):
    ''' Keepalive timers configured and a network that is slow while the two sides negotiate: the virtual clock moves
    past the keepalive interval between scheduler steps of the handshake. '''
    import itertools
    for ka_a, ka_b, pattern, slow_at in itertools.product((0, 2), (0, 2), ([0], [1], [0, 1], [1, 0]), range(0, 6)):
        if not (ka_a or ka_b):
            continue
        cfg = {'a': dict(seg_init=7, mru=7, keepalive=ka_a, idle=0), 'b': dict(seg_init=7, mru=7, keepalive=ka_b, idle=0),
               'cap_ab': None, 'cap_ba': None, 'regime': 'fair', 'priv_ext': False}
        ops = []
        for step in range(6):
            if step == slow_at:
                ops.append(['wait', 2500])
            ops.append(['run', pattern])
        ops += [['wait', 2500], ['estab'], ['send', 'A', 10, 1], ['run', [0, 1] * 8]]
        yield {'cfg': cfg, 'ops': ops}
    # A slow link (5 octets in flight at most), a bundle of many segments with a second one queued behind it, and the
    # user terminate() placed after every single scheduler step of the transfer (the window between "last segment of
    # the first bundle queued" and "link drained" is a few steps wide).
    # The last entry has segments larger than the 10240-octet chunk the connection layer moves at a time, so that
    # several whole segments wait in the message buffer (the only way the session layer ever has a backlog).
    for seg, cap, first, lo, hi in ((3, 5, 30, 0, 120), (1000, 1000, 20000, 0, 120), (65536, 10240, 458752, 120, 300)):
        cfg = {'a': dict(seg_init=seg, mru=100000, keepalive=0, idle=0), 'b': dict(seg_init=seg, mru=100000, keepalive=0, idle=0),
               'cap_ab': cap, 'cap_ba': None, 'regime': 'fair', 'priv_ext': False}
        stride = 1 if tier != 'quick' or seg < 65536 else 3
        for k in range(lo, hi, stride):
            ops = [['estab'], ['send', 'A', first, 1], ['send', 'A', 4, 2]]
            ops += [['run', [i % 7, i % 3]] for i in range(k)]
            ops += [['term', 'A', 0]]
            yield {'cfg': cfg, 'ops': ops}


def pinned_cases():
    cfg = {'a': dict(seg_init=3, mru=7, keepalive=0, idle=0), 'b': dict(seg_init=2, mru=2, keepalive=0, idle=0),
           'cap_ab': None, 'cap_ba': None, 'regime': 'fair', 'priv_ext': True}
    yield 'two-transfers', {'cfg': cfg, 'ops': [['estab'], ['send', 'A', 11, 1], ['send', 'A', 4, 2], ['send', 'B', 5, 3]]}
    yield 'term-with-queue', {'cfg': cfg, 'ops': [['estab'], ['send', 'A', 11, 1], ['send', 'A', 4, 2], ['run', [0, 0]],
                                                  ['term', 'A', 0], ['send', 'A', 3, 9]]}


def monitor(out, sender, msgs, status, omsgs, labels, refused=()):
    ''' msgs: messages written by ``sender``; omsgs: messages it received (opposite log); refused: transfer IDs the peer
    refused (such a transfer may stop without an END segment). '''
    from vlib import ref9174 as r
    if status.startswith('invalid'):
        out.fail('wire-invalid', '%s wrote octets that are not an RFC 9174 message: %s' % (sender, status))
    if status == 'partial':
        labels.add('wire-ends-inside-message')
    if not msgs:
        return
    if msgs[0]['t'] != 'CH':
        out.fail('no-contact-header', 'first item from %s is %s' % (sender, msgs[0]['t']))
    elif msgs[0]['magic'] != r.MAGIC.hex() or msgs[0]['version'] != 4:
        out.fail('bad-contact-header', 'contact header from %s: %r' % (sender, msgs[0]))
    peer_init = next((m for m in omsgs if m['t'] == 'SESS_INIT'), None)
    peer_mru = peer_init['segment_mru'] if peer_init else None
    own_term_seen = False
    term_count = 0
    used_ids = set()
    cur = None           # transfer in progress
    n_transfers = 0
    multi = False
    for idx, msg in enumerate(msgs[1:], start=1):
        kind = msg['t']
        if kind == 'CH':
            out.fail('second-contact-header', '%s sent a second contact header' % sender)
            continue
        if idx == 1:
            if kind != 'SESS_INIT':
                out.fail('first-message-not-sess-init', 'first message from %s is %s' % (sender, kind))
            continue
        if kind == 'SESS_INIT':
            out.fail('second-sess-init', '%s sent SESS_INIT twice' % sender)
            continue
        if kind == 'SESS_TERM':
            term_count += 1
            if term_count > 1:
                out.fail('second-sess-term', '%s sent SESS_TERM %d times' % (sender, term_count))
            own_term_seen = True
            continue
        if kind == 'XFER_SEGMENT':
            start = bool(msg['flags'] & r.SEG_START)
            end = bool(msg['flags'] & r.SEG_END)
            dlen = len(msg['data']) // 2
            if peer_mru is None:
                out.fail('segment-before-peer-init', '%s sent a segment before it could have seen the peer SESS_INIT' % sender)
            elif dlen > peer_mru:
                out.fail('segment-exceeds-mru', '%s sent a %d-octet segment, peer segment MRU is %d' % (sender, dlen, peer_mru))
            if start:
                if cur is not None and cur['id'] in refused:
                    labels.add('refused-transfer-stopped-without-end')
                    cur = None
                if cur is not None:
                    out.fail('start-inside-transfer', '%s started transfer %d while %d was open' % (sender, msg['id'], cur['id']))
                if msg['id'] in used_ids:
                    out.fail('transfer-id-reused', '%s reused transfer id %d' % (sender, msg['id']))
                if own_term_seen:
                    out.fail(NEW_AFTER_TERM, '%s started transfer %d after its own SESS_TERM' % (sender, msg['id']))
                used_ids.add(msg['id'])
                total = r.total_length_of(msg)
                if total is None:
                    out.fail('start-without-total-length', 'START segment of transfer %d has no Transfer Length item' % msg['id'])
                cur = dict(id=msg['id'], total=total, got=0, segs=0)
                n_transfers += 1
            else:
                if cur is None:
                    out.fail('segment-without-start', '%s sent a non-START segment of %d with no open transfer' % (sender, msg['id']))
                    continue
                if cur['id'] != msg['id']:
                    out.fail('interleaved-transfers', '%s interleaved segment of %d into transfer %d' % (sender, msg['id'], cur['id']))
                    continue
                if msg.get('ext'):
                    out.fail('ext-on-non-start', 'non-START segment carries extension items')
            cur['got'] += dlen
            cur['segs'] += 1
            if cur['segs'] >= 2:
                multi = True
            if end:
                if cur['total'] is not None and cur['total'] != cur['got']:
                    out.fail('total-length-wrong', 'transfer %d announced %d octets, carried %d' % (cur['id'], cur['total'], cur['got']))
                cur = None
            continue
        if kind not in ('XFER_ACK', 'XFER_REFUSE', 'KEEPALIVE', 'MSG_REJECT'):
            out.fail('illegal-message', '%s sent %s inside the session' % (sender, kind))
    # ACKs answer the received segments in order
    acks = [m for m in msgs if m['t'] == 'XFER_ACK']
    rsegs = [m for m in omsgs if m['t'] == 'XFER_SEGMENT']
    rejects = [m for m in msgs if m['t'] in ('MSG_REJECT', 'XFER_REFUSE')]
    if rejects:
        labels.add('reject-seen')
    else:
        if len(acks) > len(rsegs):
            out.fail('ack-without-segment', '%s sent %d ACKs for %d received segments' % (sender, len(acks), len(rsegs)))
        cum = {}
        for ack, seg in zip(acks, rsegs):
            if seg['flags'] & r.SEG_START:
                cum[seg['id']] = 0
            cum[seg['id']] = cum.get(seg['id'], 0) + len(seg['data']) // 2
            if ack['id'] != seg['id'] or ack['flags'] != seg['flags'] or ack['length'] != cum[seg['id']]:
                out.fail('ack-mismatch', 'ACK (id %d flags %d len %d) answers segment (id %d flags %d cumulative %d)'
                         % (ack['id'], ack['flags'], ack['length'], seg['id'], seg['flags'], cum[seg['id']]))
                break
    if n_transfers >= 2 and multi:
        labels.add('nontrivial')
    if term_count:
        labels.add('sess-term-sent')
    if peer_init and peer_init.get('ext'):
        labels.add('session-ext-items')


def judge(trace, out):
    from vlib import tcpcl_machine as tm
    tm.escapes_to(out, trace)
    for sender, direction, opposite in (('A', 'ab', 'ba'), ('B', 'ba', 'ab')):
        msgs, _used, status = trace.wire[direction]
        omsgs = trace.wire[opposite][0]
        monitor(out, sender, msgs, status, omsgs, trace.labels)
    for _seq, side, _reason, res in trace.term_calls:
        hdl = trace.world.ends[side].hdl
        if not hasattr(res, 'exc') and (hdl._tx_pend_start or True):
            trace.labels.add('terminate-accepted')


def refusal_cases():
    ''' A scripted peer refuses one of the endpoint's own transfers (the scenario of checks/C18.py execute_refusal: while
    it is queued, in the middle of its segments, or completely sent) with each refusal reason code, then acknowledges the
    rest: what the endpoint writes afterwards must still be a legal message sequence - in particular no transfer ID a
    second time, whatever the reason (3 = "retransmit") suggests. '''
    from checks import C18
    for base in C18.refusal_cases():
        for reason in (0, 1, 3, 4, 5):
            yield dict(base, reason=reason)


def execute_refusal(case):
    from checks import C18
    from vlib import ref9174 as r
    out = Outcome()
    scratch = Outcome()
    C18.execute_refusal(case, scratch)       # (its own verdicts about the D-Bus view belong to C18)
    trace = scratch.refusal_trace
    msgs, _used, status = r.parse_stream(trace['real'], expect_contact=True)
    omsgs = r.parse_stream(trace['peer'], expect_contact=True)[0]
    labels = set(['refusal', 'refused-when:%s' % trace['situation'], 'refusal-reason:%d' % case.get('reason', 2)])
    monitor(out, 'the endpoint', msgs, status, omsgs, labels, refused=() if trace['void'] else (trace['target'],))
    labels.discard('nontrivial')
    # non-trivial: the endpoint wrote a segment of another transfer after the refused one had started
    started = [m['id'] for m in msgs if m['t'] == 'XFER_SEGMENT' and m['flags'] & r.SEG_START]
    out.nontrivial = not trace['void'] and trace['target'] in started and len(set(started)) >= 2
    out.labels = sorted(labels)
    return out


def execute(case):
    if case.get('kind') == 'refusal':
        return execute_refusal(case)
    from vlib import tcpcl_machine as tm
    out = Outcome()
    trace = tm.execute(case)
    judge(trace, out)
    out.nontrivial = 'nontrivial' in trace.labels
    out.labels = sorted(trace.labels)
    return out
