''' C03 - A COSE integrity block verifies iff nothing it covers was altered. '''
import itertools

from hypothesis import strategies as st

from vlib import boot
from vlib.engine import Outcome

PROPERTY = 'C03'
LEVEL = 'fault_enumeration'
RULE = ('A bundle (generated payload, CRC types incl. none so that CRCs cannot mask, two extension blocks and a hop-count '
        'block) gets a Block Integrity Block over {payload, an extension block, both} either (A) from a real source '
        'agent with a COSE_Mac0 policy (HMAC-256/384/512; one association for all targets, or two associations with the extension block first so that the targets of the BIB are not in ascending order) through its real transmit chain, (S) from a real source agent with '
        'a COSE_Sign1 policy (ES256/ES384, certificate in an x5chain, receiver holding the issuing CA / another CA / none; signer certificate naming the source, no node at all, or another node), or (B) from the independent '
        'reference source with AAD scopes the repository source never emits ({0:1,-1:1,-2:1}, extra blocks with '
        'METADATA and/or BTSD flags, additional-protected parameter present or absent, CRC on the security block).  The '
        'encoded bundle is then altered field by field through the independent codec, CRCs recomputed: every primary '
        'field, target type/number/flags/CRC type/data octets, security source, every scope entry, the scope parameter removed or retyped, the '
        'additional-protected parameter, MAC octets, protected-header octets, kid, the security block own flags, data '
        'and flags of blocks outside the scope, wrong or missing key at the receiver; for CRC-less bundles also raw '
        'single-bit flips of the encoding (exhaustive for the enumerated small bundles).  Oracle = the independent '
        'verifier vlib/refcose.py (validated at start-up against the upstream interop vectors): a fresh real receiver '
        'delivers the bundle to the application iff the reference verifies every target, and otherwise records a '
        'deletion with a security reason code (12..16).  Non-trivial = the case evaluated at least one covered and one '
        'uncovered alteration; distinct by SHA-1 of the case.')
SHRINK_KEYS = ('alterations',)
SHRINK_KINDS = ('list',)
ASSUMPTIONS = [
    'COSE_Mac0 and COSE_Sign1: the installed pycose cannot produce COSE_Mac with a wrapped key nor load the upstream HMAC '
    'keys (listed under skipped_kinds)',
    'COSE_Sign1 (direction S): the source signs with a fixed test end-entity key (fixtures/pki.json) and sends the '
    'certificate as x5chain; the receiver validates the chain with the real certvalidator at the bundle creation time; '
    'the reference checks the ECDSA signature over Sig_structure, the bundle-EID otherName against the security source and '
    'is told whether the trust anchor is the issuing CA; it does not validate chains itself, so bit flips inside the '
    'x5chain are judged one-directionally (delivered => reference verifies)',
    'for raw bit flips only "delivered => reference verifies" is asserted (a flip may make the bundle malformed for other reasons)',
]
EXHAUSTIVE_PART = 'every single-bit flip of the enumerated CRC-less signed bundles; every catalogue alteration for each enumerated kind x target x scope'

SEC_REASONS = {12, 13, 14, 15, 16}
SCOPES = [
    {0: 1, -1: 1}, {0: 1, -1: 1, -2: 1}, {-1: 1}, {0: 1, -1: 1, 3: 1}, {0: 1, -1: 1, 3: 3}, {0: 1, -1: 1, 3: 2, -2: 1},
    None,    # no AAD-scope parameter: the default scope applies
    {},      # an AAD-scope parameter that is present and empty: nothing but source, scope and protected parameters is bound
]


def prepare():
    boot.bp()
    from vlib import refcose
    import os
    refcose.selftest(os.path.join(boot.REPO_SRC, 'bp', 'test', 'data'))


def budgets(tier):
    if tier == 'quick':
        return dict(shards=16, examples=6)
    return dict(shards=16, examples=900, deadline_s=3000)


CURVES = {-7: 'p256', -35: 'p384'}
ALTERATION_KINDS = ['pri-flags', 'pri-dest', 'pri-src', 'pri-rpt', 'pri-time', 'pri-seq', 'pri-lifetime', 'pri-crc-type',
                    'tgt-data', 'tgt-flags', 'tgt-type', 'tgt-num', 'tgt-crc-type', 'other-data', 'other-flags',
                    'sec-flags', 'sec-source', 'sec-scope', 'sec-addl-protected', 'res-tag', 'res-protected', 'res-kid',
                    'wrong-key', 'no-key', 'bitflip', 'x5chain-flip', 'sec-scope-retype', 'sec-scope-drop', 'sig-malleate', 'res-drop', 'res-none', 'res-attach', 'sec-source-form']


@st.composite
def cases(draw):
    alts = []
    for _ in range(draw(st.integers(4, 14))):
        alts.append([draw(st.sampled_from(ALTERATION_KINDS)), draw(st.integers(0, 255)), draw(st.integers(0, 4000))])
    direction = draw(st.sampled_from(['A', 'B', 'S']))
    return {'direction': direction, 'alg': draw(st.sampled_from([5, 6, 7] if direction != 'S' else [-7, -35])),
            'targets': draw(st.sampled_from([['payload'], ['ext'], ['payload', 'ext']])),
            'scope': draw(st.integers(0, len(SCOPES) - 1)), 'addl': draw(st.booleans()),
            'plen': draw(st.sampled_from([0, 1, 5, 24, 300])), 'seed': draw(st.integers(0, 99)),
            'pcrc': draw(st.sampled_from([0, 0, 1, 2])), 'bcrc': draw(st.sampled_from([0, 0, 1, 2])),
            'sec_crc': draw(st.sampled_from([0, 1])), 'alterations': alts,
            # direction A with two targets: the source reaches them through two associations, the extension block's first
            'split': draw(st.booleans()),
            # direction S: whose certificate the signer holds - its own, one without any bundle EID, one naming another
            # node (all issued by the CA the receiver trusts): the last two are the wrong key for this security source
            'identity': draw(st.sampled_from(['own', 'own', 'own', 'none', 'other'])),
            # the symmetric key is known under the identifier 'k-mac-1', or under the empty identifier
            'kid': draw(st.sampled_from(['k-mac-1', 'k-mac-1', ''])),
            # direction S only: source and receiver get their keys / trust anchor from files named in the configuration
            'via_files': draw(st.sampled_from([False, False, True])), 'keyset': draw(st.sampled_from([0, 0, 2, 3]))}


def strategy(tier):
    return cases()


def enumerate_cases(tier):
    # every catalogue alteration for each kind x target x scope
    catalogue = [[k, i, i * 7] for k in ALTERATION_KINDS if k not in ('bitflip', 'x5chain-flip', 'sig-malleate') for i in (0, 1, 2)]
    combos = list(itertools.product(('A', 'B'), ([5], [6, 7])[0:1] if tier == 'quick' else ([5], [6], [7]),
                                    (['payload'], ['ext'], ['payload', 'ext']), range(len(SCOPES))))
    for direction, algs, targets, scope in combos:
        if direction == 'A' and scope != 0:
            continue
        yield {'direction': direction, 'alg': algs[0], 'targets': targets, 'scope': scope, 'addl': scope % 2 == 1,
               'plen': 5, 'seed': 1, 'pcrc': 0, 'bcrc': 0, 'sec_crc': 0, 'alterations': catalogue}
    for direction, targets in itertools.product(('A', 'B'), (['payload'], ['payload', 'ext'])):
        yield {'direction': direction, 'alg': 5, 'targets': targets, 'scope': 0, 'addl': False, 'plen': 5, 'seed': 1, 'pcrc': 0,
               'bcrc': 0, 'sec_crc': 0, 'alterations': catalogue, 'kid': ''}
    for alg, pcrc in itertools.product((5, 7), (0, 1)):
        yield {'direction': 'A', 'alg': alg, 'targets': ['payload', 'ext'], 'scope': 0, 'addl': False, 'plen': 5, 'seed': 1, 'pcrc': pcrc,
               'bcrc': 0, 'sec_crc': 0, 'alterations': catalogue, 'split': True}
    for alg, identity in itertools.product((-7, -35), ('none', 'other')):
        yield {'direction': 'S', 'alg': alg, 'targets': ['payload'], 'scope': 0, 'addl': False, 'plen': 5, 'seed': 1, 'pcrc': 0,
               'bcrc': 0, 'sec_crc': 0, 'alterations': [], 'identity': identity}
    yield {'direction': 'S', 'alg': -7, 'targets': ['payload'], 'scope': 0, 'addl': False, 'plen': 5, 'seed': 1, 'pcrc': 0, 'via_files': True,
           'keyset': 2, 'bcrc': 0, 'sec_crc': 0, 'alterations': [['tgt-data', 0, 1], ['pri-time', 0, 0], ['other-data', 0, 0], ['res-tag', 0, 3]]}
    yield {'direction': 'S', 'alg': -7, 'targets': ['payload'], 'scope': 0, 'addl': False, 'plen': 5, 'seed': 1, 'pcrc': 0, 'via_files': True,
           'keyset': 3, 'bcrc': 0, 'sec_crc': 0, 'alterations': [['tgt-data', 0, 1], ['pri-time', 0, 0], ['other-data', 0, 0], ['res-tag', 0, 3]]}
    for alg in (-7, -35):
        yield {'direction': 'S', 'alg': alg, 'targets': ['payload'], 'scope': 0, 'addl': False, 'plen': 5, 'seed': 1, 'pcrc': 0, 'via_files': True,
               'bcrc': 0, 'sec_crc': 0, 'alterations': [c for c in catalogue if not c[0].startswith('other-')][::2]}
    for alg, targets in itertools.product((-7,) if tier == 'quick' else (-7, -35), (['payload'], ['ext'], ['payload', 'ext'])):
        yield {'direction': 'S', 'alg': alg, 'targets': targets, 'scope': 0, 'addl': False, 'plen': 5, 'seed': 1, 'pcrc': 0,
               'bcrc': 0, 'sec_crc': 0, 'alterations': catalogue + [['x5chain-flip', 0, pos] for pos in range(0, 440, 37)] + [['sig-malleate', 0, 0]]}
    # exhaustive single-bit flips of small CRC-less signed bundles, in chunks
    for direction in ('A', 'B', 'S'):
        base = {'direction': direction, 'alg': 5 if direction != 'S' else -7, 'targets': ['payload'], 'scope': 1 if direction == 'B' else 0, 'addl': False,
                'plen': 3, 'seed': 2, 'pcrc': 0, 'bcrc': 0, 'sec_crc': 0}
        nbits = 8 * (150 if tier == 'quick' else 260)
        if direction == 'S':
            nbits = 8 * (700 if tier != 'quick' else 0)     # the x5chain makes the bundle ~650 octets
        step = 96
        for start in range(0, nbits, step):
            yield dict(base, alterations=[['bitflip', 0, bit] for bit in range(start, start + step)])


def pinned_cases():
    yield 'A-payload', {'direction': 'A', 'alg': 5, 'targets': ['payload'], 'scope': 0, 'addl': False, 'plen': 5, 'seed': 1,
                        'pcrc': 2, 'bcrc': 1, 'sec_crc': 0,
                        'alterations': [['tgt-data', 0, 0], ['pri-time', 0, 0], ['other-data', 0, 0], ['res-tag', 0, 3], ['wrong-key', 0, 0]]}


def base_bundle(case):
    from vlib import ref9171 as r, strat9174
    blocks = [dict(type=192, num=2, flags=0, crc_type=case['bcrc'], data=strat9174.content(6, case['seed'] + 1).hex()),
              dict(type=193, num=3, flags=0, crc_type=case['bcrc'], data=strat9174.content(4, case['seed'] + 2).hex()),
              dict(type=10, num=4, flags=0, crc_type=0, data=r.btsd_hop_count(30, 1)),
              dict(type=1, num=1, flags=0, crc_type=case['bcrc'], data=strat9174.content(case['plen'], case['seed']).hex())]
    pri = dict(version=7, flags=r.FLAG_RPT_DELETION, crc_type=case['pcrc'], dest=['dtn', '//dst/svc'], src=['dtn', '//srcnode/app'],
               rpt=['dtn', '//reports/'], ts=[789004000000, 5], lifetime=3600000, frag=None)
    return {'primary': pri, 'blocks': blocks}


def sign(case, out):
    ''' :return: signed reference bundle (dict) or None. '''
    from vlib import bp_world as bw, ref9171 as r, bpconv, bpsec_util as bu
    from bp.util import BundleContainer
    bundle = base_bundle(case)
    target_nums = [1 if t == 'payload' else 2 for t in case['targets']]
    kid = '' if case.get('kid') == '' else 'k-mac-1'
    if case['direction'] in ('A', 'S'):
        bw.reset()
        if case.get('via_files') and case['direction'] == 'S' and case['targets'] == ['payload'] and (case.get('identity') or 'own') == 'own':
            # the deployment way: key and certificate files named in the configuration; the agent then signs the payload
            # of everything it sources itself (Bpsec load_config), nothing is set up by hand
            import shutil
            tmpdir, paths = bu.pem_files('dtn://srcnode/', CURVES[case['alg']], _keyset(case))
            try:
                src = bw.Node('dtn://srcnode/', tx_routes=[('.*', 'dtn://next/', None)], name='source',
                              config_extra={'sign_key_file': paths['key'], 'sign_cert_file': paths['cert']})
            except Exception as exc:
                out.fail('source-cannot-load-key:%s' % type(exc).__name__, 'an agent configured with a valid %s key and certificate (key set %d) '
                         'does not start: %s: %s' % (CURVES[case['alg']], _keyset(case), type(exc).__name__, str(exc)[:100]))
                return None
            finally:
                shutil.rmtree(tmpdir, ignore_errors=True)
            out.label('keys-from-files')
            err = src.send(BundleContainer(bpconv.to_repo(bundle)))
            sent = src.sent()
            if err is not None or len(sent) != 1:
                out.fail('source-failed', 'the source agent (configured with key files) could not send the bundle: %r (%d bundles)' % (err, len(sent)))
                return None
            signed = r.strip(r.decode(sent[0]))
            if len([b for b in signed['blocks'] if b['type'] == 11]) != 1:
                out.fail('source-bib-count', 'a source configured with sign_key_file is to sign what it sources; found %d BIBs'
                         % len([b for b in signed['blocks'] if b['type'] == 11]))
                return None
            return signed
        src = bw.Node('dtn://srcnode/', tx_routes=[('.*', 'dtn://next/', None)], name='source')
        if case['direction'] == 'S':
            # COSE_Sign1 with the end-entity certificate in an x5chain (additional unprotected parameter)
            kid = 'k-sign'
            bu.give_signing_identity(src, 'dtn://srcnode/', CURVES[case['alg']], case.get('identity') or 'own')
        else:
            bu.give_key(src, kid, case['alg'], 'mac')
        types = sorted({1 if t == 'payload' else 192 for t in case['targets']})
        if case.get('split') and len(types) > 1:
            # two associations of the source match the bundle, the one for the extension block first: the targets of its
            # BIB are then not in ascending order of block numbers (result list i still belongs to target i)
            for tcode in reversed(types):
                bu.add_policy(src, 'bib', kid, [tcode])
            out.label('source-two-associations')
        else:
            bu.add_policy(src, 'bib', kid, types)
        err = src.send(BundleContainer(bpconv.to_repo(bundle)))
        sent = src.sent()
        if err is not None or len(sent) != 1:
            out.fail('source-failed', 'the source agent could not send the bundle with a BIB policy: %r (%d bundles)' % (err, len(sent)))
            return None
        try:
            signed = r.strip(r.decode(sent[0]))
        except r.RefError as exc:
            out.fail('source-not-wellformed', 'the source agent emitted a malformed bundle: %s' % exc)
            return None
        bibs = [b for b in signed['blocks'] if b['type'] == 11]
        if len(bibs) != 1:
            out.fail('source-bib-count', 'expected one BIB from the source policy, found %d' % len(bibs))
            return None
        return signed
    scope = SCOPES[case['scope'] % len(SCOPES)]
    scope = dict(scope) if scope is not None else None
    return bu.ref_add_bib(bundle, target_nums, kid, case['alg'], scope,
                          addl_protected=(b'\xa0' if case.get('addl') else b''), sec_crc=case.get('sec_crc', 0))


def _keyset(case):
    ''' Which fixture key set the source signs with: 0, or (P-256 only) 2: a public coordinate with a leading zero octet,
    3: end-entity certificate without a subject key identifier. '''
    # (only where the source really is configured from files: see sign())
    from_files = case.get('via_files') and case.get('direction') == 'S' and case.get('targets') == ['payload'] \
        and (case.get('identity') or 'own') == 'own'
    return case['keyset'] if from_files and case.get('keyset') in (2, 3) and case.get('alg') == -7 else 0


def receive(bundle_or_wire, alg, key_override=None, no_key=False, kid='k-mac-1', via_files=False, keyset=0):
    ''' Fresh real receiver.  :return: (delivered payload or None, finish records) '''
    from vlib import bp_world as bw, ref9171 as r, bpsec_util as bu
    bw.reset()
    if via_files and alg in CURVES and not no_key:
        import shutil
        tmpdir, paths = bu.pem_files('dtn://srcnode/', CURVES[alg], 1 if key_override is not None else keyset)
        try:
            node = bw.Node('dtn://dst/', rx_routes=[('^dtn://dst/', 'deliver')], tx_routes=[('.*', 'dtn://next/', None)], name='dst',
                           config_extra={'verify_ca_file': paths['ca']})
        finally:
            shutil.rmtree(tmpdir, ignore_errors=True)
        bu.give_key(node, 'k-mac-2', 5, 'mac')
    else:
        node = bw.Node('dtn://dst/', rx_routes=[('^dtn://dst/', 'deliver')], tx_routes=[('.*', 'dtn://next/', None)], name='dst')
    if via_files and alg in CURVES and not no_key:
        pass
    elif alg in CURVES:
        # Sign1: the "key" is the trust anchor; wrong key = some other CA, no key = no trust anchor at all
        if not no_key:
            bu.trust(node, 'dtn://srcnode/', CURVES[alg], 1 if key_override is not None else 0)
        bu.give_key(node, 'k-mac-2', 5, 'mac')
    else:
        if not no_key:
            bu.give_key(node, kid, alg, 'mac', keybytes=key_override)
        bu.give_key(node, 'k-mac-2', alg, 'mac')
    finishes = []
    orig = node.agent._finish_bundle

    def finish(ctr):
        finishes.append((sorted(ctr.actions), ctr.status_reason))
        return orig(ctr)
    node.agent._finish_bundle = finish
    wire = bundle_or_wire if isinstance(bundle_or_wire, (bytes, bytearray)) else r.encode(bundle_or_wire)
    err = node.receive(wire)
    recs = node.records()
    payload = recs[0]['payload'] if recs else None
    return payload, finishes, err, node.escapes()


def execute(case):
    from vlib import ref9171 as r, refcose as rc, bpsec_util as bu
    out = Outcome()
    signed = sign(case, out)
    if signed is None:
        return out
    alg = case['alg']
    kid = '' if case.get('kid') == '' else 'k-mac-1'
    good_keys = bu.ref_keys([kid, 'k-mac-2'])
    sign1 = case['direction'] == 'S'
    if sign1:
        good_keys['trust-anchor-ok'] = True     # the receiver trusts the CA that issued the source certificate
    out.label('direction:' + case['direction'], 'alg:%d' % alg, 'targets:' + '+'.join(case['targets']),
              'scope:%d' % (case['scope'] if case['direction'] == 'B' else -1))
    bib = rc.security_blocks(signed, 11)[0]
    if sign1 and (case.get('identity') or 'own') != 'own':
        # signed with a key that is certified, but not for this security source
        out.label('signer-identity:' + case['identity'])
        try:
            ok = rc.verify_bib(signed, bib, good_keys)
        except rc.CoseError:
            ok = False
        if ok:
            out.fail('harness-impostor-verifies', 'the reference accepts a certificate that does not name the security source')
            return out
        payload, fins, err, escapes = receive(signed, alg, kid=kid, via_files=bool(case.get('via_files')), keyset=_keyset(case))
        out.count('alterations_evaluated')
        out.count('alteration:signer-identity')
        if payload is not None:
            out.fail('covered-change-accepted:signer-identity', 'a BIB signed with a CA-issued certificate that %s verified at the '
                     'receiver and the bundle was delivered' % ('carries no bundle EID' if case['identity'] == 'none' else 'names another node'))
        out.nontrivial = True
        return out
    # differential on the unmodified bundle: reference verifies the tag, receiver delivers
    try:
        ok = rc.verify_bib(signed, bib, good_keys)
    except rc.CoseError as exc:
        ok = False
        out.fail('reference-cannot-read-bib', 'reference verifier cannot read the BIB: %s' % exc)
    if not ok:
        out.fail('unmodified-does-not-verify:reference', 'the independent verifier rejects the unmodified BIB (direction %s)' % case['direction'])
        return out
    payload, fins, err, escapes = receive(signed, alg, kid=kid, via_files=bool(case.get('via_files')), keyset=_keyset(case))
    want_payload = bytes.fromhex(signed['blocks'][-1]['data'])
    if payload != want_payload:
        out.fail('unmodified-not-delivered', 'receiver with the right key did not deliver the unmodified bundle (finish %s, error %r)' % (fins, err))
        return out
    n_cov = n_unc = 0
    target_nums = rc.parse_asb(bib['data'])['targets']
    wire_signed = r.encode(signed)
    crcless = signed['primary']['crc_type'] == 0 and all(b['crc_type'] == 0 for b in signed['blocks'])
    for alt in case['alterations']:
        kind, arg1, arg2 = alt[0], alt[1], alt[2]
        keys = good_keys
        key_override = None
        no_key = False
        one_directional = False
        if kind == 'res-kid' and sign1:
            continue     # a Sign1 from this source carries no kid; adding one is not an alteration the property lists
        if kind == 'sig-malleate':
            # ECDSA: (r, n - s) is a different signature value over the same content.  The statement says that any
            # change to the signature makes verification fail; an ECDSA verifier that accepts both values (as RFC 9053
            # allows) cannot satisfy that, which is recorded as a known finding, not repaired (rejecting high-s values
            # would refuse about half of the signatures other implementations produce)
            if not sign1:
                continue
            mutated = bu.edit_asb(signed, 11, lambda asb: _malleate(asb, arg1 % len(target_nums), alg))
            if mutated == signed:
                continue
            payload, fins, err, escapes = receive(r.encode(mutated), alg, kid=kid, via_files=bool(case.get('via_files')), keyset=_keyset(case))
            out.count('alterations_evaluated')
            out.count('alteration:sig-malleate')
            if payload is not None:
                out.fail('ecdsa-signature-malleable', 'the signature value of a COSE_Sign1 BIB was changed from (r, s) to (r, n - s) and the '
                         'BIB still verified: the bundle was delivered')
            n_cov += 1
            continue
        if kind == 'x5chain-flip':
            if not sign1:
                continue
            mutated = bu.edit_asb(signed, 11, lambda asb: _flip_x5chain(asb, arg2))
            wire = r.encode(mutated)
            one_directional = True      # the reference does not validate certificate chains
        elif kind == 'wrong-key':
            mutated = signed
            key_override = bu.KEYS['k-mac-2']
            keys = dict(good_keys)
            keys[kid.encode('ascii')] = key_override
            keys['trust-anchor-ok'] = False
            wire = r.encode(mutated)
        elif kind == 'no-key':
            mutated = signed
            no_key = True
            keys = {b'k-mac-2': bu.KEYS['k-mac-2']}
            wire = r.encode(mutated)
        elif kind == 'bitflip':
            if not crcless:
                continue
            bit = arg2 % (8 * len(wire_signed))
            data = bytearray(wire_signed)
            data[bit // 8] ^= 0x80 >> (bit % 8)
            wire = bytes(data)
            one_directional = True
            try:
                mutated = r.strip(r.decode(wire))
            except r.RefError:
                mutated = None
        else:
            if kind.startswith('tgt-'):
                alt = [kind, target_nums[arg1 % len(target_nums)], arg2]
            elif kind.startswith('other-'):
                alt = [kind, 3 if arg1 % 2 == 0 else 4, arg2]
            elif kind.startswith('res-'):
                alt = [kind, arg1 % len(target_nums), arg2]
            try:
                mutated = bu.alter(signed, alt, 11)
            except Exception as exc:
                out.fail('harness-alter', 'alteration %r failed in the harness: %s' % (alt, exc))
                continue
            if mutated == signed:
                continue
            wire = r.encode(mutated)
        # reference verdict (None = the reference cannot tell: bundle malformed for unrelated reasons, or no BIB left)
        verdict = False if not one_directional else None
        if mutated is not None:
            try:
                bibs = rc.security_blocks(mutated, 11)
                verdict = bool(bibs) and all(rc.verify_bib(mutated, b, keys) for b in bibs)
                if not bibs:
                    verdict = None    # BIB disappeared (bit flip in its type code): nothing to verify
            except (rc.CoseError, r.RefError, ValueError, KeyError, IndexError, TypeError):
                verdict = False
        payload, fins, err, escapes = receive(wire, alg, key_override, no_key, kid=kid, via_files=bool(case.get('via_files')), keyset=_keyset(case))
        delivered = payload is not None
        out.count('alterations_evaluated')
        out.count('alteration:%s' % kind)
        desc = '%s %s' % (kind, alt[1:] if kind != 'bitflip' else 'bit %d' % (arg2 % (8 * len(wire_signed))))
        for esc in escapes:
            out.fail('escape:%s@%s' % (esc.exc_type, esc.frame), 'exception escaped a main-loop callback after %s: %s' % (desc, esc.exc_msg[:100]))
        if one_directional:
            if delivered and verdict is False:
                out.fail('bitflip-covered-but-delivered', 'single-bit flip (%s) of covered content: reference verifier rejects, receiver '
                         'delivered' % desc)
            if verdict is False:
                n_cov += 1
            elif verdict:
                n_unc += 1
            continue
        if verdict:
            n_unc += 1
            if not delivered:
                out.fail('uncovered-change-rejected:%s' % kind, 'alteration outside the authenticated content (%s) made the receiver '
                         'withhold the bundle (finish %s, error %r)' % (desc, fins, err))
            elif mutated is not None and payload != bytes.fromhex(mutated['blocks'][-1]['data']):
                out.fail('delivered-payload-differs', 'delivered payload differs from the received one after %s' % desc)
        else:
            n_cov += 1
            if delivered:
                out.fail('covered-change-accepted:%s' % kind, 'alteration of authenticated content (%s) still verified at the receiver '
                         'and the bundle was delivered' % desc)
            else:
                reasons = [reason for acts, reason in fins if 'delete' in acts]
                if not reasons:
                    out.fail('failure-not-recorded:%s' % kind, 'verification failed after %s but no deletion was recorded (finish %s, '
                             'error %r)' % (desc, fins, err))
                elif not all(isinstance(x, int) and int(x) in SEC_REASONS for x in reasons):
                    out.fail('failure-without-security-reason', 'verification failed after %s, deletion recorded with reason %r'
                             % (desc, reasons))
    out.nontrivial = n_cov >= 1 and n_unc >= 1
    out.count('covered', n_cov)
    out.count('uncovered', n_unc)
    return out


def _malleate(asb, target_index, alg):
    ''' Replace the ECDSA signature (r || s) of a Sign1 result by (r || n - s). '''
    from vlib import refcose as rc, cborpull as cb
    order = {-7: 0xFFFFFFFF00000000FFFFFFFFFFFFFFFFBCE6FAADA7179E84F3B9CAC2FC632551,
             -35: 0xFFFFFFFFFFFFFFFFFFFFFFFFFFFFFFFFFFFFFFFFFFFFFFFFC7634D81F4372DDF581A0DB248B0A77AECEC196ACCC52973}[alg]
    rid, enc = asb['results'][target_index][0]
    msg = rc._py(cb.parse(bytes(enc)))
    sig = bytes(msg[-1])
    half = len(sig) // 2
    s_val = int.from_bytes(sig[half:], 'big')
    msg[-1] = sig[:half] + ((order - s_val) % order).to_bytes(half, 'big')
    asb['results'][target_index][0] = [rid, cb.enc(msg)]


def _flip_x5chain(asb, position):
    ''' Flip one bit inside the additional-unprotected parameter (the x5chain with the source certificate). '''
    for prm in asb['params']:
        if prm[0] == 4 and prm[1]:
            data = bytearray(bytes(prm[1]))
            data[position % len(data)] ^= 1 << (position % 8)
            prm[1] = bytes(data)
            return


def evidence_extra(tier):
    return {'skipped_kinds': ['COSE_Mac with wrapped key (pycose 1.1.0: HMAC algorithms have no get_key_length)',
                              ]}
