''' C17 - TCPCL answers out-of-place peer messages without corrupting state. '''
import itertools

from hypothesis import strategies as st

from vlib import boot
from vlib.engine import Outcome

PROPERTY = 'C17'
RULE = ('One real ContactHandler (active or passive, 0-3 own bundles queued) against a scripted peer built on the '
        'independent RFC 9174 codec.  The script is a generated list of steps: proper handshake steps, proper transfers, '
        'proper ACKs of everything received ("behave") and single well-formed out-of-place messages chosen from a '
        '20-letter alphabet (segment/ACK/refuse/SESS_TERM/KEEPALIVE before establishment, ACK/refuse naming an own queued transfer before establishment, a final ACK for an own transfer whose END segment is still unsent (outgoing pipe with a small capacity), contact header with wrong '
        'magic or version, second contact header / SESS_INIT, non-START segment without transfer, segment of another '
        'id mid-transfer, START while a transfer is open, ACK/refuse for unknown ids, unknown message type).  All '
        'sequences of up to 2 (quick) / 3 (thorough) adversarial letters are enumerated per phase (before contact, '
        'before SESS_INIT, established); longer ones are random.  Oracle: no exception escapes an event-loop callback; '
        'each out-of-place message listed in the property is answered by MSG_REJECT, SESS_TERM or close before the next '
        'step; every delivered bundle equals one transfer as the peer sent it (reference reassembly that ignores '
        'rejected segments); if the session survives, the endpoint own queued bundles still complete once the peer '
        'behaves.  Non-trivial = an out-of-place message was delivered while established with an own transfer '
        'pending; distinct by SHA-1 of the case.')
SHRINK_KEYS = ('script',)
ASSUMPTIONS = [
    'messages are delivered whole (chunking is C07), one step at a time, the endpoint runs to quiescence in between',
    'adversarial transfer ids (>= 100) never collide with the endpoint own transfer ids (1..3), except the refuse-own / '
    'ack-own / ack-end-own letters which name the first own queued transfer and are sent only before the session is '
    'established (afterwards they would be the peer\'s legitimate answer to that transfer)',
    'a second contact header / SESS_INIT and KEEPALIVE/MSG_REJECT at odd times only have to be survived (no escape), the '
    'property lists no required answer for them',
]
EXHAUSTIVE_PART = 'all sequences of <= 2 (quick) / <= 3 (thorough) adversarial letters in each of three phases, active and passive'

LETTERS = ['seg-start', 'seg-mid', 'seg-end', 'ack', 'ack-end', 'refuse', 'term', 'term-reply', 'keepalive', 'reject',
           'unknown-type', 'second-ch', 'second-init', 'seg-other-id', 'refuse-own', 'ack-own', 'ack-end-own', 'ack-end-early',
           # a refusal / an ACK naming an own transfer that is queued and has not started: no octet of it and not its ID
           # has been on the wire, so for the peer it is an unknown transfer
           'refuse-queued', 'ack-queued']
MUST_ANSWER_ALWAYS = {'unknown-type'}
MUST_ANSWER_BEFORE_SESSION = {'seg-start', 'seg-mid', 'seg-end', 'ack', 'ack-end', 'refuse', 'term', 'term-reply',
                              'seg-other-id', 'refuse-own', 'ack-own', 'ack-end-own'}
MUST_ANSWER_ESTABLISHED = {'seg-mid', 'seg-end', 'ack', 'ack-end', 'refuse', 'seg-other-id', 'ack-end-early', 'refuse-queued', 'ack-queued'}


def prepare():
    boot.tcpcl()


def budgets(tier):
    if tier == 'quick':
        return dict(shards=16, examples=60)
    return dict(shards=16, examples=5000, deadline_s=3000)


def letter_msg(letter, counter, own_id=1, own_len=0):
    ''' The well-formed message for an adversarial letter (ids >= 100 are never the endpoint own; the -own
    letters name the endpoint's first queued transfer and are only used before the session exists). '''
    from vlib import ref9174 as r
    tid = 100 + counter
    if letter == 'refuse-own':
        return {'t': 'XFER_REFUSE', 'reason': 2, 'id': own_id}
    if letter == 'ack-own':
        return {'t': 'XFER_ACK', 'flags': 2, 'id': own_id, 'length': min(own_len, 3)}
    if letter == 'ack-end-own':
        return {'t': 'XFER_ACK', 'flags': 3, 'id': own_id, 'length': own_len}
    if letter == 'seg-start':
        return {'t': 'XFER_SEGMENT', 'flags': 2, 'id': tid, 'ext': [r.transfer_length_ext(9)], 'data': b'start-seg'.hex()}
    if letter == 'seg-mid':
        return {'t': 'XFER_SEGMENT', 'flags': 0, 'id': tid, 'data': b'mid'.hex()}
    if letter == 'seg-end':
        return {'t': 'XFER_SEGMENT', 'flags': 1, 'id': tid, 'data': b'end'.hex()}
    if letter == 'seg-other-id':
        return {'t': 'XFER_SEGMENT', 'flags': 0, 'id': 5000 + counter, 'data': b'other'.hex()}
    if letter == 'ack':
        return {'t': 'XFER_ACK', 'flags': 0, 'id': tid, 'length': 3}
    if letter == 'ack-end':
        return {'t': 'XFER_ACK', 'flags': 1, 'id': tid, 'length': 3}
    if letter == 'refuse':
        return {'t': 'XFER_REFUSE', 'reason': 2, 'id': tid}
    if letter == 'term':
        return {'t': 'SESS_TERM', 'flags': 0, 'reason': 3}
    if letter == 'term-reply':
        return {'t': 'SESS_TERM', 'flags': 1, 'reason': 0}
    if letter == 'keepalive':
        return {'t': 'KEEPALIVE'}
    if letter == 'reject':
        return {'t': 'MSG_REJECT', 'rej_msg_id': 1, 'reason': 3}
    if letter == 'unknown-type':
        return {'t': 'RAW', 'data': bytes([0x08 + counter % 0xf0]).hex()}
    if letter == 'second-ch':
        return {'t': 'CH', 'magic': r.MAGIC.hex(), 'version': 4, 'flags': 0}
    if letter == 'second-init':
        # (an attempt to renegotiate: another node id, and now and then a segment MRU of zero)
        return {'t': 'SESS_INIT', 'keepalive': 7 if counter % 2 else 0, 'segment_mru': 0 if counter % 2 else 100, 'transfer_mru': 1000,
                'nodeid': 'dtn://evil/', 'ext': []}
    raise ValueError(letter)


@st.composite
def scripts(draw):
    steps = []
    phase = draw(st.sampled_from(['contact', 'init', 'estab', 'estab', 'estab']))
    n_adv = draw(st.integers(1, 5))

    def adversarial():
        # 'glue': the message shares a read with whatever the peer sends next (chunking x adversarial messages)
        return ['adv', draw(st.sampled_from(LETTERS))] + (['glue'] if draw(st.integers(0, 4)) == 0 else [])
    if phase == 'contact':
        if draw(st.booleans()):
            steps.append(['ch', draw(st.sampled_from(['bad-magic', 'version-3', 'version-5']))] + (['joined'] if draw(st.booleans()) else []))
        else:
            steps += [adversarial() for _ in range(n_adv)]
        steps.append(['ch', 'ok'])
        steps.append(['init'])
    elif phase == 'init':
        steps.append(['ch', 'ok'])
        steps += [adversarial() for _ in range(n_adv)]
        steps.append(['init'])
    else:
        steps += [['ch', 'ok'], ['init']]
    for _ in range(draw(st.integers(0, 8))):
        kind = draw(st.sampled_from(['adv', 'adv', 'adv', 'xfer', 'behave', 'open-xfer', 'close-xfer']))
        if kind == 'adv':
            steps.append(adversarial())
        elif kind == 'xfer':
            steps.append(['xfer', draw(st.integers(1, 3)), draw(st.integers(0, 20))])
        elif kind == 'open-xfer':
            steps.append(['open-xfer', draw(st.integers(1, 12))])
        elif kind == 'close-xfer':
            steps.append(['close-xfer', draw(st.integers(0, 12))])
        else:
            steps.append(['behave'])
    return steps


def strategy(tier):
    return st.fixed_dictionaries({
        'active': st.booleans(),
        'own': st.lists(st.tuples(st.sampled_from([1, 5, 20, 64]), st.integers(0, 99)).map(list), max_size=3),
        'seg': st.sampled_from([3, 7, 64, 1000]),
        'script': scripts(),
        # capacity of the endpoint's outgoing TCP direction: with a small one its own transfers are still partly unsent
        # when the peer misbehaves (the peer reads only when it "behaves")
        'cap': st.sampled_from([None, None, 30, 120]),
    })


def enumerate_cases(tier):
    depth = 2 if tier == 'quick' else 3
    for active in (False, True):
        for phase in ('contact', 'init', 'estab'):
            for length in range(1, depth + 1):
                for word in itertools.product(LETTERS, repeat=length):
                    adv = [['adv', letter] for letter in word]
                    if phase == 'contact':
                        script = adv + [['ch', 'ok'], ['init'], ['behave']]
                    elif phase == 'init':
                        script = [['ch', 'ok']] + adv + [['init'], ['behave']]
                    else:
                        script = [['ch', 'ok'], ['init'], ['open-xfer', 4]] + adv + [['close-xfer', 2], ['behave']]
                    yield {'active': active, 'own': [[20, 1]], 'seg': 7, 'script': script}
                    if phase == 'estab' and length == 1:
                        # own transfers held back by a full pipe: a second one is queued but not yet sent
                        # (more than the 2 x 10240 octets the connection buffers: the session layer has not produced the
                        # end of the first transfer, the second has not started)
                        yield {'active': active, 'own': [[40000, 1], [20, 2]], 'seg': 1000, 'mru': 1000, 'cap': 2000,
                               'script': [['ch', 'ok'], ['init']] + adv + [['behave']]}
        for bad in ('bad-magic', 'version-3', 'version-5'):
            yield {'active': active, 'own': [[5, 1]], 'seg': 7, 'script': [['ch', bad], ['ch', 'ok'], ['init'], ['behave']]}
            yield {'active': active, 'own': [[5, 1]], 'seg': 7, 'script': [['ch', bad, 'joined'], ['ch', 'ok'], ['init'], ['behave']]}


def pinned_cases():
    yield 'ack-unknown', {'active': False, 'own': [[20, 1]], 'seg': 7,
                          'script': [['ch', 'ok'], ['init'], ['adv', 'ack'], ['behave']]}
    yield 'refuse-any', {'active': True, 'own': [[20, 1]], 'seg': 7,
                         'script': [['ch', 'ok'], ['init'], ['adv', 'refuse'], ['behave']]}
    yield 'unknown-type', {'active': False, 'own': [], 'seg': 7,
                           'script': [['ch', 'ok'], ['init'], ['adv', 'unknown-type'], ['behave']]}


class Peer(object):
    ''' Scripted peer state: what it has sent and received. '''

    def __init__(self, world):
        self.world = world
        self.parsed = 0          # octets of the real endpoint's output already parsed
        self.rx_msgs = []        # messages received from the real endpoint
        self.acked = 0           # how many received segments were acknowledged
        self.sent_segments = []  # every XFER_SEGMENT we sent (reference reassembly input)
        self.open_tid = None
        self.next_tid = 1000
        self.sent_ch = False
        self.pre_contact = b''
        self.sent_init = False
        self.held = b''          # octets held back to share a read with the next message

    def pump(self):
        ''' Deliver everything and let the endpoint run to quiescence; collect its output. '''
        from vlib import ref9174 as r
        world = self.world
        world.settle()
        data = world.real_wire()
        msgs, used, status = r.parse_stream(data)
        new = msgs[len(self.rx_msgs):]
        self.rx_msgs = msgs
        self.status = status
        return new

    def send(self, msg):
        from vlib import ref9174 as r
        if self.world.peer_sock.tx.reader_closed or self.world.peer_sock.closed:
            return False
        data = self.held + r.encode(msg)
        self.held = b''
        try:
            self.world.peer_send(data)
        except OSError:
            return False
        if msg['t'] == 'XFER_SEGMENT':
            self.sent_segments.append(msg)
        return True


def admissible(segments, tid):
    ''' Byte strings a correct receiver may deliver for transfer ``tid`` given
    the segments the peer sent (segments of other ids in between are rejected, a
    new START restarts). '''
    out = set()
    for idx, seg in enumerate(segments):
        if seg['id'] != tid or not seg['flags'] & 2:
            continue
        data = bytes.fromhex(seg['data'])
        if seg['flags'] & 1:
            out.add(data)
            continue
        for nxt in segments[idx + 1:]:
            if nxt['flags'] & 2:
                break          # any START replaces the open transfer
            if nxt['id'] != tid:
                continue       # rejected, not part of the transfer
            data += bytes.fromhex(nxt['data'])
            if nxt['flags'] & 1:
                out.add(data)
                break
    return out


def execute(case):
    from vlib import tcpcl_world as tw, ref9174 as r, strat9174 as s9
    import dbus
    out = Outcome()
    active = bool(case['active'])
    seg = max(1, int(case.get('seg', 7)))
    cfg = tw.make_config('dtn://real/', segment_size_tx_initial=seg)
    cap = case.get('cap')
    world = tw.World(cfg, scripted=True, real_is_passive=not active, cap_ab=cap if active else None, cap_ba=None if active else cap)
    end = world.real
    hdl = end.hdl
    own = []
    for length, seed in case.get('own', [])[:3]:
        data = s9.content(max(0, int(length)), seed)
        res = end.call('send_bundle_data', dbus.ByteArray(data))
        own.append((str(res), data))
    peer = Peer(world)
    peer.pump()
    counter = 0
    adv_established_pending = False
    for step in case['script']:
        kind = step[0]
        established = hdl._in_sess and not hdl._in_term
        ending = hdl._in_term
        in_sess_before = hdl._in_sess
        before_len = len(peer.rx_msgs)
        before_closed = end.sock.closed
        if before_closed:
            break
        if kind == 'ch':
            which = step[1]
            msg = {'t': 'CH', 'magic': r.MAGIC.hex(), 'version': 4, 'flags': 0}
            if which == 'bad-magic':
                msg['magic'] = b'dtn?'.hex()
            elif which == 'version-3':
                msg['version'] = 3
                msg = {'t': 'RAW', 'data': (b'dtn!' + bytes([3, 0, 0, 0, 0])).hex()}   # TCPCLv3 header, empty node id
            elif which == 'version-5':
                msg['version'] = 5
            was_in_conn = hdl._in_conn
            if which != 'ok' and len(step) > 2 and step[2] == 'joined':
                # the refused header, a proper header and a SESS_INIT arrive in one read
                out.label('bad-contact-header-joined')
                msg = {'t': 'RAW', 'data': (r.encode(msg) + r.encode({'t': 'CH', 'magic': r.MAGIC.hex(), 'version': 4, 'flags': 0})
                                            + r.encode({'t': 'SESS_INIT', 'keepalive': 0, 'segment_mru': 50, 'transfer_mru': 2 ** 40,
                                                        'nodeid': 'dtn://peer/', 'ext': []})).hex()}
            peer.send(msg)
            new = peer.pump()
            if which != 'ok' and not was_in_conn and hdl._in_conn:
                out.fail('negotiates-after-refusing', 'after refusing a contact header (%s) the endpoint went on negotiating with '
                         'octets that followed it (state %s, closed %s)' % (which, hdl._state, end.sock.closed))
            if which != 'ok' and not was_in_conn:
                out.label('bad-contact-header')
                answered = end.sock.closed or any(m['t'] in ('SESS_TERM',) for m in new)
                if not answered:
                    out.fail('unanswered:contact-%s' % which, 'contact header with %s was neither refused by termination '
                             'nor by closing the connection (state %s)' % (which, hdl._state))
            elif which == 'ok':
                peer.sent_ch = True
        elif kind == 'init':
            peer.send({'t': 'SESS_INIT', 'keepalive': 0, 'segment_mru': int(case.get('mru') or 50), 'transfer_mru': 2 ** 40,
                       'nodeid': 'dtn://peer/', 'ext': []})
            peer.sent_init = True
            peer.pump()
        elif kind == 'adv':
            letter = step[1]
            counter += 1
            glued = len(step) > 2 and step[2] == 'glue'
            after_glued = bool(peer.held)
            if letter.endswith('-own') and (in_sess_before or not own or glued or after_glued):
                # inside the session these would be the peer's legitimate say about our transfer, not out of place (and
                # next to a glued message - which may be a SESS_INIT - the state at arrival is not what it is now)
                letter = letter[:-4]
            early = None
            if letter == 'ack-end-early':
                # a final ACK for an own transfer whose END segment has not been written yet
                if established:
                    ended = set(m['id'] for m in peer.pump() or peer.rx_msgs if m['t'] == 'XFER_SEGMENT' and m['flags'] & 1)
                    ended |= set(m['id'] for m in peer.rx_msgs if m['t'] == 'XFER_SEGMENT' and m['flags'] & 1)
                    # (not yet produced by the session layer at all: a segment waiting in the connection buffer behind
                    # a full pipe counts as sent, the endpoint cannot be asked to know how far TCP got)
                    early = next(((bid, data) for bid, data in own if int(bid) not in ended and int(bid) in hdl._tx_map
                                  and hdl._tx_map[int(bid)] not in hdl._tx_pend_ack), None)
                if early is None:
                    letter = 'ack-end'
            queued = None
            if letter in ('refuse-queued', 'ack-queued'):
                if established and not glued and not after_glued:
                    peer.pump()
                    started = set(m['id'] for m in peer.rx_msgs if m['t'] == 'XFER_SEGMENT')
                    queued = next((bid for bid, _data in own if int(bid) not in started and int(bid) in hdl._tx_map
                                   and hdl._tx_map[int(bid)] in hdl._tx_pend_start), None)
                if queued is None:
                    letter = letter[:-7]
            if queued is not None:
                msg = ({'t': 'XFER_REFUSE', 'reason': 2, 'id': int(queued)} if letter == 'refuse-queued'
                       else {'t': 'XFER_ACK', 'flags': 0, 'id': int(queued), 'length': 3})
                out.label('names-a-queued-own-transfer')
            elif early is not None:
                msg = {'t': 'XFER_ACK', 'flags': 1, 'id': int(early[0]), 'length': len(early[1])}
                out.label('ack-end-before-end-was-sent')
            else:
                msg = letter_msg(letter, counter, int(own[0][0]) if own else 1, len(own[0][1]) if own else 0)
                if letter == 'second-init' and not in_sess_before:
                    # before the session exists this is simply the peer's SESS_INIT: keep it one the endpoint can work with
                    msg['segment_mru'] = 100
            if letter == 'seg-other-id' and peer.open_tid is None and established:
                letter_eff = 'seg-mid'      # no open transfer: it is simply a segment without a transfer
            else:
                letter_eff = letter
            in_conn = hdl._in_conn
            if len(step) > 2 and step[2] == 'glue' and early is None:
                # held back: it reaches the endpoint in one read with the peer's next message; only the global clauses
                # (no escape, no mismatched data, own transfers unaffected) are judged for it
                peer.held += r.encode(msg)
                if msg['t'] == 'XFER_SEGMENT':
                    peer.sent_segments.append(msg)
                out.label('glued-to-next')
                continue
            if not peer.send(msg):
                continue
            new = peer.pump()
            must = False
            if letter_eff in MUST_ANSWER_ALWAYS and in_conn:
                must = True
            elif not in_sess_before and in_conn and letter_eff in MUST_ANSWER_BEFORE_SESSION:
                must = True
            elif established and letter_eff in MUST_ANSWER_ESTABLISHED:
                must = True
            elif not in_conn:
                # before the contact header every octet is read as contact header: once six octets are
                # there and they are not "dtn!" version 4 the connection must be refused
                peer.pre_contact += r.encode(msg)
                head = peer.pre_contact[:6]
                must = len(head) == 6 and (head[:4] != r.MAGIC or head[4] != 4)
            if ending and letter_eff not in MUST_ANSWER_ALWAYS:
                must = False    # the property lists no required answer while the session is terminating
            if after_glued:
                # it shared its read with a held-back message, which may have changed the session state (a SESS_INIT, a
                # SESS_TERM): only the global clauses are judged
                must = False
                out.label('after-glued')
            if established:
                out.label('adv-established:' + letter)
                if own and any(bid in [str(k) for k in hdl._tx_map] for bid, _d in own):
                    adv_established_pending = True
            else:
                out.label('adv-early:' + letter)
            if early is not None:
                fin_now = [e for e in end.signals('send_bundle_finished') if str(e['args'][0]) == early[0] and e['args'][2] == 'success']
                if fin_now:
                    out.fail('success-before-sent', 'own transfer %s was reported as sent successfully on a final ACK that arrived '
                             'before its END segment was written' % early[0])
            if must and cap is not None and not end.sock.closed:
                # the answer may be waiting behind a full pipe: let the peer read before judging
                _peer_reads(peer)
                new = peer.rx_msgs[before_len:]
            if must:
                answered = end.sock.closed or any(m['t'] in ('MSG_REJECT', 'SESS_TERM') for m in new)
                if not answered:
                    out.fail('unanswered:%s:%s' % (letter_eff, 'established' if established else ('negotiating' if in_conn else 'no-contact')),
                             'out-of-place %s (%s) got no MSG_REJECT / SESS_TERM / close; endpoint wrote %s, receive buffer %d'
                             % (letter_eff, 'established' if established else 'before session',
                                [m['t'] for m in new], hdl.recv_buffer_used()))
        elif kind == 'xfer':
            nseg, dlen = max(1, int(step[1])), max(0, int(step[2]))
            if peer.open_tid is not None:
                continue
            tid = peer.next_tid
            peer.next_tid += 1
            for idx in range(nseg):
                flags = (2 if idx == 0 else 0) | (1 if idx == nseg - 1 else 0)
                msg = {'t': 'XFER_SEGMENT', 'flags': flags, 'id': tid, 'data': s9.content(dlen, tid * 10 + idx).hex()}
                if idx == 0:
                    msg['ext'] = [r.transfer_length_ext(dlen * nseg)]
                peer.send(msg)
            peer.pump()
        elif kind == 'open-xfer':
            if peer.open_tid is None:
                tid = peer.next_tid
                peer.next_tid += 1
                peer.open_tid = tid
                peer.send({'t': 'XFER_SEGMENT', 'flags': 2, 'id': tid, 'ext': [], 'data': s9.content(max(0, int(step[1])), tid).hex()})
                peer.pump()
        elif kind == 'close-xfer':
            if peer.open_tid is not None:
                tid = peer.open_tid
                peer.open_tid = None
                peer.send({'t': 'XFER_SEGMENT', 'flags': 1, 'id': tid, 'data': s9.content(max(0, int(step[1])), tid + 1).hex()})
                peer.pump()
        elif kind == 'behave':
            _behave(peer)
    # final cooperative phase: the peer behaves until nothing moves
    if not end.sock.closed:
        if peer.open_tid is not None:
            peer.send({'t': 'XFER_SEGMENT', 'flags': 1, 'id': peer.open_tid, 'data': ''})
            peer.open_tid = None
        for _ in range(60):
            if not _behave(peer):
                break

    # --- oracle ---
    for esc in world.escapes():
        out.fail('escape:%s@%s' % (esc.exc_type, esc.frame), 'exception escaped an event-loop callback (%s): %s: %s'
                 % (esc.source, esc.exc_type, esc.exc_msg[:140]))
    # delivered data integrity
    fin = [e for e in end.signals('recv_bundle_finished')]
    for ev in fin:
        bid = ev['args'][0]
        data = end.call('recv_bundle_pop_data', bid)
        if hasattr(data, 'exc'):
            continue
        ok = admissible(peer.sent_segments, int(bid))
        if bytes(data) not in ok:
            out.fail('mismatched-assembly', 'delivered transfer %s holds %d octets that are not one transfer as the peer '
                     'sent it' % (bid, len(data)))
    # own transfers unaffected if the session survived
    survived = (not end.sock.closed) and hdl._state == 'established' and not hdl._in_term
    got_term = any(m['t'] == 'SESS_TERM' for m in peer.rx_msgs)
    if survived and not got_term and not world.escapes():
        sfin = {str(e['args'][0]): e['args'][2] for e in end.signals('send_bundle_finished')}
        for bid, data in own:
            if sfin.get(bid) != 'success':
                out.fail('own-transfer-affected', 'session survived but own transfer %s ended as %r (send queue %s)'
                         % (bid, sfin.get(bid), sorted(hdl._tx_map)))
                break
    out.nontrivial = adv_established_pending
    out.label('active' if active else 'passive', 'survived' if survived else 'ended')
    return out


def _peer_reads(peer):
    ''' The peer reads what arrived (this frees the endpoint's outgoing pipe when it has a capacity) until nothing
    more comes.  :return: True if anything was read. '''
    read = False
    for _ in range(200):
        if not peer.world.rx_pipe.readable:
            break
        del peer.world.rx_pipe.readable[:]
        read = True
        peer.pump()
    return read


def _behave(peer):
    ''' Acknowledge every not yet acknowledged segment; answer SESS_TERM.  :return: True if something was sent. '''
    from vlib import ref9174 as r
    peer.pump()
    did = _peer_reads(peer)
    segs = [m for m in peer.rx_msgs if m['t'] == 'XFER_SEGMENT']
    cum = {}
    for idx, seg in enumerate(segs):
        if seg['flags'] & 2:
            cum[seg['id']] = 0
        cum[seg['id']] = cum.get(seg['id'], 0) + len(seg['data']) // 2
        if idx >= peer.acked:
            if peer.send({'t': 'XFER_ACK', 'flags': seg['flags'], 'id': seg['id'], 'length': cum[seg['id']]}):
                did = True
            peer.acked = idx + 1
    if any(m['t'] == 'SESS_TERM' for m in peer.rx_msgs) and not getattr(peer, 'term_sent', False):
        peer.term_sent = True
        peer.send({'t': 'SESS_TERM', 'flags': 1, 'reason': 0})
        did = True
    peer.pump()
    return did
