''' C05 - BP fragmentation keeps every fragment within the route MTU and loses nothing. '''
import itertools

from hypothesis import strategies as st

from vlib import boot
from vlib.engine import Outcome

PROPERTY = 'C05'
RULE = ('A real BP agent with one transmit route whose MTU is drawn relative to the bundle (size-1, around the header '
        'size, header+{1,2,3,12,23,24,25,255,256,257}, 64..70000) sends a bundle that is either originated locally '
        '(Agent.send_bundle on a container built field by field) or received and forwarded.  Payload lengths sit on '
        'the CBOR head boundaries 23/24, 255/256, 65535/65536 +-1 (and random), CRC type per block, 0-3 extension blocks '
        'with and without the replicate flag (alone or next to other block processing flags), flags NO_FRAGMENT / already-a-fragment on or off, plain payloads or administrative records (object form), optionally a BIB or BCB policy over the payload at the fragmenting node (the security block is added before the fragmentation step).  A grid payload length x '
        'MTU offset x CRC x replicate is enumerated.  Oracle on the byte strings handed to the convergence layer, parsed '
        'independently: if the bundle may and must be fragmented and a fragment with one payload octet fits (feasible, '
        'computed with the independent encoder): every string <= MTU, fragments carry identity + fragment flag + own '
        'offset + total length, ranges tile [0,total) exactly, concatenation == payload, offset-0 fragment carries all '
        'extension blocks, later ones exactly the replicate ones, CRCs valid; NO_FRAGMENT / already a fragment / fits: '
        'exactly one bundle with the payload unchanged; infeasible: nothing oversized or altered is transmitted.  Optionally the convergence '
        'layer of the route has reported the next hop as seen (as the UDPCL adaptor does for every polling message) before the bundle is sent: '
        'the configured route and its MTU still apply.  '
        'Non-trivial = >= 2 fragments emitted or the infeasible branch; distinct by SHA-1 of the case.')
SHRINK_KEYS = ()
ASSUMPTIONS = [
    'between "one payload octet fits" and header + 3 x (width of the CBOR head of the payload length) + 2 octets the agent may either fragment or give up (its worst-case '
    'head-size estimate is conservative); both are accepted there, but never an oversized or altered bundle',
    'forwarded bundles gain hop-by-hop blocks (C11) before fragmentation; identity and payload are compared with the received bundle',
]
EXHAUSTIVE_PART = 'grid: payload length on CBOR head boundaries x MTU offsets relative to the header x CRC type x replicate flag x mode'

NODE = 'dtn://me/'
LENGTHS = [0, 1, 22, 23, 24, 25, 254, 255, 256, 257, 1000, 65534, 65535, 65536, 65537, 70000]


def prepare():
    boot.bp()


def budgets(tier):
    if tier == 'quick':
        return dict(shards=16, examples=30)
    return dict(shards=16, examples=1200, deadline_s=3000)


@st.composite
def cases(draw):
    from vlib import strat
    plen = draw(st.one_of(st.sampled_from(LENGTHS), st.integers(0, 3000)))
    ext = []
    for _ in range(draw(st.integers(0, 3))):
        kind = draw(st.sampled_from(['unknown', 'hop', 'age']))
        ext.append({'repl': draw(st.booleans()), 'crc': draw(st.sampled_from([0, 1, 2])),
                    'kind': kind, 'dlen': draw(st.sampled_from([0, 3, 30])),
                    # further block processing control flags next to the replicate bit
                    'xflags': draw(st.sampled_from([0, 0, 0x02, 0x10, 0x12] if kind != 'unknown' else [0, 0, 0x02]))})
    return {'mode': draw(st.sampled_from(['originate', 'forward'])), 'plen': plen, 'pseed': draw(st.integers(0, 99)),
            'pcrc': draw(st.sampled_from([0, 1, 2])), 'ycrc': draw(st.sampled_from([0, 1, 2])), 'ext': ext,
            'no_fragment': draw(st.sampled_from([False, False, False, True])),
            'is_fragment': draw(st.sampled_from([False, False, False, True])),
            'mtu_kind': draw(st.sampled_from(['size-1', 'header', 'header', 'abs', 'none', 'fits'])),
            'mtu_off': draw(st.sampled_from([-5, -1, 0, 1, 2, 3, 12, 23, 24, 25, 255, 256, 257, 1000])),
            'mtu_abs': draw(st.sampled_from([64, 100, 300, 1000, 9000, 70000])),
            'src': draw(strat.eids(allow_none=False)), 'dest': draw(st.sampled_from([['dtn', '//far/away'], ['ipn', 300, 70000]])),
            # (creation time 0: a source without a clock; lifetime 0: both are legal values a forwarding node must carry
            # through unchanged, also into the fragments it makes)
            'ts': [draw(st.sampled_from([0, 0, 1, 24, 1000, 2 ** 32, 789004000000])), draw(st.sampled_from([0, 23, 24, 300]))],
            'lifetime': draw(st.sampled_from([3600000, 3600000, 0, 1])),
            'flags': draw(strat.flag_sets(strat.REPORT_FLAGS)),
            # a security policy at this node: the integrity / confidentiality block over the payload is added by the
            # transmit chain before the fragmentation step
            'policy': draw(st.sampled_from([None, None, None, 'bib', 'bcb'])),
            # the payload is an administrative record (a status report about a subject with a long name), handed over as
            # payload object when originated and decoded into one when received
            'admin': draw(st.sampled_from([False, False, False, True])),
            # originated bundles only: the payload block is handed over without a block number (send_bundle assigns it)
            'unnumbered': draw(st.sampled_from([False, False, True])),
            # the CL has reported the next hop of the route as seen (0, 1 or 3 times) before the bundle is sent
            'seen': draw(st.sampled_from([0, 0, 0, 1, 3]))}


def strategy(tier):
    return cases()


def enumerate_cases(tier):
    for case in resend_cases():
        yield case
    for case in _policy_cases(tier):
        yield case
    for case in _admin_cases(tier):
        yield case
    for case in _seen_cases(tier):
        yield case
    for case in _unnumbered_cases(tier):
        yield case
    lengths = [24, 256, 1000] if tier == 'quick' else [1, 23, 24, 255, 256, 1000, 65535, 65536]
    offsets = [-1, 0, 1, 2, 3, 12, 24, 256] if tier == 'quick' else [-5, -1, 0, 1, 2, 3, 12, 23, 24, 25, 255, 256, 257, 1000]
    for mode, plen, off, crc, repl in itertools.product(('originate', 'forward'), lengths, offsets, (0, 1, 2), (False, True)):
        yield {'mode': mode, 'plen': plen, 'pseed': 1, 'pcrc': crc, 'ycrc': crc,
               'ext': [{'repl': repl, 'crc': crc, 'kind': 'unknown', 'dlen': 3, 'xflags': 0x02 if crc == 1 else 0},
                       {'repl': not repl, 'crc': 0, 'kind': 'hop', 'dlen': 0, 'xflags': 0x10 if crc == 2 else 0}],
               'no_fragment': False, 'is_fragment': False, 'mtu_kind': 'header', 'mtu_off': off, 'mtu_abs': 0,
               'src': ['dtn', '//src/'], 'dest': ['dtn', '//far/away'], 'ts': [1000, 1], 'flags': 0}


def _seen_cases(tier):
    for mode, plen, off, seen in itertools.product(('originate', 'forward'), (300, 1000), (1, 24), (1, 2)):
        yield {'mode': mode, 'plen': plen, 'pseed': 1, 'pcrc': 1, 'ycrc': 1, 'ext': [], 'no_fragment': False, 'is_fragment': False,
               'mtu_kind': 'header', 'mtu_off': off, 'mtu_abs': 0, 'src': ['dtn', '//src/'], 'dest': ['dtn', '//next/svc'],
               'ts': [1000, 1], 'flags': 0, 'policy': None, 'seen': seen}


def _admin_cases(tier):
    for mode, plen, off in itertools.product(('originate', 'forward'), (120, 300), (1, 24, 60)):
        yield {'mode': mode, 'plen': plen, 'pseed': 1, 'pcrc': 1, 'ycrc': 1, 'ext': [], 'no_fragment': False, 'is_fragment': False,
               'mtu_kind': 'header', 'mtu_off': off, 'mtu_abs': 0, 'src': ['dtn', '//src/'], 'dest': ['dtn', '//far/away'],
               'ts': [1000, 1], 'flags': 0, 'policy': None, 'admin': True}


def _unnumbered_cases(tier):
    for policy, off in itertools.product((None, 'bib', 'bcb'), (3, 24, 256)):
        yield {'mode': 'originate', 'plen': 1000, 'pseed': 1, 'pcrc': 1, 'ycrc': 2, 'ext': [], 'no_fragment': False, 'is_fragment': False,
               'mtu_kind': 'header', 'mtu_off': off, 'mtu_abs': 0, 'src': ['dtn', '//src/'], 'dest': ['dtn', '//far/away'],
               'ts': [1000, 1], 'flags': 0, 'policy': policy, 'admin': False, 'unnumbered': True}


def _policy_cases(tier):
    for mode, policy, plen, off in itertools.product(('originate', 'forward'), ('bib', 'bcb'), (256, 1000), (3, 24, 256)):
        yield {'mode': mode, 'plen': plen, 'pseed': 1, 'pcrc': 1, 'ycrc': 1,
               'ext': [{'repl': True, 'crc': 0, 'kind': 'unknown', 'dlen': 3, 'xflags': 0}],
               'no_fragment': False, 'is_fragment': False, 'mtu_kind': 'header', 'mtu_off': off, 'mtu_abs': 0,
               'src': ['dtn', '//src/'], 'dest': ['dtn', '//far/away'], 'ts': [1000, 1], 'flags': 0, 'policy': policy}


def pinned_cases():
    base = {'mode': 'originate', 'plen': 1000, 'pseed': 1, 'pcrc': 2, 'ycrc': 2,
            'ext': [{'repl': True, 'crc': 1, 'kind': 'unknown', 'dlen': 3}, {'repl': False, 'crc': 0, 'kind': 'hop', 'dlen': 0}],
            'no_fragment': False, 'is_fragment': False, 'mtu_kind': 'abs', 'mtu_off': 0, 'mtu_abs': 300,
            'src': ['dtn', '//src/'], 'dest': ['dtn', '//far/away'], 'ts': [1000, 1], 'flags': 0}
    yield 'originate-300', base
    yield 'forward-300', dict(base, mode='forward')
    yield 'infeasible', dict(base, mtu_kind='header', mtu_off=-5)


def build(case):
    from vlib import ref9171 as r, strat9174
    flags = int(case.get('flags', 0))
    frag = None
    if case.get('no_fragment'):
        flags |= r.FLAG_NO_FRAGMENT
    if case.get('is_fragment'):
        flags |= r.FLAG_FRAGMENT
        frag = [7, 7 + case['plen'] + 5]
    blocks = []
    for idx, ext in enumerate(case.get('ext', [])):
        if ext['kind'] == 'hop':
            tcode, data = 10, r.btsd_hop_count(30, 1)
        elif ext['kind'] == 'age':
            tcode, data = 7, r.btsd_age(77)
        else:
            tcode, data = 192 + idx, strat9174.content(ext['dlen'], idx).hex()
        blocks.append(dict(type=tcode, num=2 + idx, flags=(1 if ext['repl'] else 0) | int(ext.get('xflags', 0)), crc_type=ext['crc'], data=data))
    if case.get('admin'):
        flags |= r.FLAG_ADMIN
        flags &= ~(r.FLAG_RPT_RECEPTION | r.FLAG_RPT_FORWARD | r.FLAG_RPT_DELIVERY | r.FLAG_RPT_DELETION)
        name = 's' * max(1, min(int(case['plen']), 3000) - 30)
        pdata = r.status_report([[True, 5], [False], [True, 0], [False]], 3, ['dtn', '//%s/x' % name], [1000, int(case['pseed'])])
    else:
        pdata = strat9174.content(case['plen'], case['pseed']).hex()
    blocks.append(dict(type=1, num=1, flags=0, crc_type=case['ycrc'], data=pdata))
    if case.get('unnumbered') and case.get('mode') == 'originate':
        blocks[-1]['unnumbered'] = True
    src = case['src'] if r.eid_text(case['src']) != NODE else ['dtn', '//src/']
    ctime, lifetime = int(case['ts'][0]), int(case.get('lifetime', 3600000))
    if case.get('mode') != 'forward':
        # handed to send_bundle(), zero means "fill in the default"; only a received bundle carries them as values
        ctime, lifetime = ctime or 1, lifetime or 3600000
    pri = dict(version=7, flags=flags, crc_type=case['pcrc'], dest=case['dest'], src=src, rpt=['dtn', 'none'],
               ts=[ctime, int(case['ts'][1])], lifetime=lifetime, frag=frag)
    return {'primary': pri, 'blocks': blocks}


def header_sizes(sent_form, total):
    ''' Size of a first and of a later fragment with an empty payload, by the independent encoder. '''
    from vlib import ref9171 as r
    pri = dict(sent_form['primary'])
    pri['flags'] |= r.FLAG_FRAGMENT
    ext = sent_form['blocks'][:-1]
    pay = dict(sent_form['blocks'][-1], data='')
    first = {'primary': dict(pri, frag=[0, total]), 'blocks': ext + [pay]}
    later = {'primary': dict(pri, frag=[max(0, total - 1), total]), 'blocks': [b for b in ext if b['flags'] & 1] + [pay]}
    return len(r.encode(first)), len(r.encode(later))


def resend_cases():
    ''' The same container handed to send_bundle() again after the convergence layer refused it the first time (an
    application retrying, as the SAND application does).  With a BIB policy the security step signs again, so the
    container has grown by one BIB at the second attempt: it fitted the route MTU the first time and does not any more;
    with a small payload the blocks alone exceed the MTU then (fragmentation impossible: nothing may leave), with a
    large one the second attempt has to leave as fragments. '''
    for plen, pcrc in itertools.product((10, 40, 400, 1000), (0, 1, 2)):
        yield {'kind': 'resend', 'plen': plen, 'pcrc': pcrc, 'nofrag': False}


def execute_resend(case):
    from vlib import bp_world as bw, ref9171 as r, bpconv, strat9174, bpsec_util as bu
    from bp.util import BundleContainer
    out = Outcome()

    def make():
        bw.reset()
        made = bw.Node(NODE, rx_routes=[('.*', 'forward')], tx_routes=[('.*', 'dtn://next/', None)])
        bu.give_key(made, 'k-mac-1', 5, 'mac')
        bu.add_policy(made, 'bib', 'k-mac-1', [1])
        return made
    flags = r.FLAG_NO_FRAGMENT if case['nofrag'] else 0
    pri = dict(version=7, flags=flags, crc_type=case['pcrc'], dest=['dtn', '//far/away'], src=['dtn', '//me/app'], rpt=['dtn', 'none'],
               ts=[1000, 1], lifetime=3600000, frag=None)
    bundle = {'primary': pri, 'blocks': [dict(type=1, num=1, flags=0, crc_type=1, data=strat9174.content(case['plen'], 5).hex())]}
    # probe: how large is the bundle with one BIB
    node = make()
    node.send(BundleContainer(bpconv.to_repo(bundle)))
    if len(node.sent()) != 1:
        out.fail('resend-setup', 'probe run sent %d bundles' % len(node.sent()))
        return out
    size1 = len(node.sent()[0])
    # the MTU lets the once-signed bundle through with a little to spare; without the do-not-fragment flag it is made so
    # small at the second attempt that not even one payload octet fits next to the blocks
    node = make()
    mtu = size1 + 8 if case['nofrag'] else size1 - case['plen'] + 8
    if not case['nofrag']:
        # first attempt must fit: use a payload-less margin only when the once-signed bundle fits
        mtu = size1 + 8
    node.set_mtu(0, mtu)
    ctr = BundleContainer(bpconv.to_repo(bundle))
    node.cl.fail = True
    err = node.send(ctr)
    node.cl.fail = False
    if err is None or node.sent():
        out.fail('resend-setup', 'the first hand-over was meant to fail (error %r, %d bundles out)' % (err, len(node.sent())))
        return out
    err = node.send(ctr)
    sent = node.sent()
    where = 'second send of the same container (one more BIB), payload %d, once-signed size %d, route MTU %d, do-not-fragment %s' % (
        case['plen'], size1, mtu, case['nofrag'])
    for data in sent:
        if len(data) > mtu:
            out.fail('oversized-after-resend', 'a %d-octet bundle was handed to the CL (%s; error %r)' % (len(data), where, err))
    out.label('resend:sent-%d' % min(len(sent), 3))
    out.nontrivial = True
    out.label('resend')
    return out


def execute(case):
    if case.get('kind') == 'resend':
        return execute_resend(case)
    from vlib import bp_world as bw, ref9171 as r, bpconv
    from bp.util import BundleContainer
    out = Outcome()
    bw.reset()
    bundle = build(case)
    wire = r.encode(bundle)
    total = len(bundle['blocks'][-1]['data']) // 2
    mode = case['mode']
    policy = case.get('policy')
    plain_bundle = bundle

    def make_node():
        from vlib import bpsec_util as bu
        made = bw.Node(NODE, rx_routes=[('.*', 'forward')], tx_routes=[('.*', 'dtn://next/', None)])
        if policy == 'bib':
            bu.give_key(made, 'k-mac-1', 5, 'mac')
            bu.add_policy(made, 'bib', 'k-mac-1', [1])
        elif policy == 'bcb':
            bu.give_key(made, 'k-enc-1', 3, 'enc')
            bu.add_policy(made, 'bcb', 'k-enc-1', [1], ivs=[b'\x33' * 12])
        return made
    node = make_node()
    # what the bundle looks like when it reaches the fragmentation step
    if mode == 'forward' or policy:
        err = node.receive(wire) if mode == 'forward' else node.send(BundleContainer(bpconv.to_repo(bundle, objform=bool(case.get('admin')))))
        if err is not None:
            out.fail('receive-raises' if mode == 'forward' else 'probe-send-raises', 'the unfragmented probe run raised %s' % err)
            return out
        probe = [d for d in node.sent()]
        if len(probe) != 1:
            out.fail('probe-forward', 'the unfragmented probe run produced %d bundles' % len(probe))
            return out
        sent_form = r.strip(r.decode(probe[0]))
        unfrag_size = len(probe[0])
        bw.reset()
        node = make_node()
    else:
        sent_form = r.strip(r.decode(wire))
        unfrag_size = len(wire)
    if policy:
        out.label('policy:' + policy)
        if case.get('is_fragment'):
            out.label('policy-on-a-fragment')     # whether a fragment gets security blocks is not C05's business
        elif not [b for b in sent_form['blocks'] if b['type'] == (11 if policy == 'bib' else 12)]:
            out.fail('policy-not-applied', 'the %s policy added no security block in the probe run' % policy)
            return out
        # what is fragmented is the payload as it leaves the security step (ciphertext under a BCB policy)
        bundle = dict(bundle, blocks=bundle['blocks'][:-1] + [dict(bundle['blocks'][-1], data=sent_form['blocks'][-1]['data'])])
        total = len(sent_form['blocks'][-1]['data']) // 2
    head_first, head_later = header_sizes(sent_form, total)
    kind = case['mtu_kind']
    if kind == 'none':
        mtu = None
    elif kind == 'size-1':
        mtu = unfrag_size - 1
    elif kind == 'fits':
        mtu = unfrag_size + max(0, case['mtu_off'])
    elif kind == 'header':
        mtu = head_first + case['mtu_off']
    else:
        mtu = case['mtu_abs']
    if mtu is not None:
        mtu = max(1, mtu)
    node.set_mtu(0, mtu)
    if case.get('seen'):
        # the convergence layer of the route reports the next hop as seen, once or several times (what the UDPCL adaptor
        # does for every polling message it hears: Agent.cl_attach wires its peer_node_seen to this function); the
        # configured route and its MTU still apply to what is sent there afterwards
        for _ in range(int(case['seen'])):
            node.agent._cl_peer_node_seen('fake')('dtn://next/', {'next': 'dtn://next/'})
        out.label('next-hop-seen-by-cl')
    if mode == 'forward':
        err = node.receive(wire)
    else:
        err = node.send(BundleContainer(bpconv.to_repo(plain_bundle, objform=bool(case.get('admin')))))
    emitted = []
    for data in node.sent():
        try:
            dec = r.decode(data)
        except r.RefError as exc:
            out.fail('emitted-not-wellformed', 'octets handed to the CL are not an RFC 9171 bundle: %s (mtu %s, mode %s)' % (exc, mtu, mode))
            continue
        if dec['primary']['flags'] & r.FLAG_ADMIN and not case.get('admin'):
            continue
        emitted.append((data, dec))
    for esc in node.escapes():
        out.fail('escape:%s@%s' % (esc.exc_type, esc.frame), 'exception escaped a main-loop callback: %s: %s' % (esc.exc_type, esc.exc_msg[:120]))
    payload = bytes.fromhex(bundle['blocks'][-1]['data'])
    may_fragment = not case.get('no_fragment') and not case.get('is_fragment')
    needs = mtu is not None and unfrag_size > mtu
    where = 'mode %s payload %d mtu %s unfragmented %d header %d/%d' % (mode, total, mtu, unfrag_size, head_first, head_later)
    out.label('mode:' + mode, 'mtu:' + kind)
    if case.get('admin'):
        out.label('admin-record-payload')
    if not (may_fragment and needs):
        out.label('no-fragmentation-expected')
        if len(emitted) != 1:
            out.fail('unfragmented-count', 'expected the bundle to be sent once unchanged, the CL got %d bundles (%s; error %r)'
                     % (len(emitted), where, err))
            return out
        data, dec = emitted[0]
        if mode == 'originate' and not policy and data != wire:
            out.fail('unfragmented-altered', 'bundle that needs no fragmentation was altered (%s)' % where)
        if dec['primary']['flags'] != bundle['primary']['flags'] or dec['primary']['frag'] != bundle['primary']['frag'] \
                or r.payload_block(dec)['data'] != bundle['blocks'][-1]['data']:
            out.fail('unfragmented-altered', 'bundle that must not be fragmented changed flags/fragment fields/payload (%s)' % where)
        return out
    feasible = mtu >= max(head_first, head_later) + 1
    from vlib import cborpull
    # the agent sizes fragments with worst-case head widths (two fragment fields and the payload byte-string head)
    comfortable = mtu >= max(head_first, head_later) + 3 * len(cborpull.head(0, total)) + 2
    if not feasible:
        out.label('infeasible')
        out.nontrivial = True
        for data, dec in emitted:
            if len(data) > mtu:
                out.fail('infeasible-oversized', 'fragmentation is impossible but a %d-octet bundle was transmitted (%s)' % (len(data), where))
            elif r.payload_block(dec)['data'] != bundle['blocks'][-1]['data']:
                out.fail('infeasible-altered', 'fragmentation is impossible but an altered bundle was transmitted (%s)' % where)
        return out
    if not emitted and not comfortable:
        out.label('gave-up-near-limit')
        return out
    # fragmentation expected
    for data, dec in emitted:
        if len(data) > mtu:
            bucket = 'oversized-unfragmented' if not dec['primary']['flags'] & r.FLAG_FRAGMENT else 'oversized-fragment'
            out.fail(bucket, 'a %d-octet bundle was handed to the CL, MTU is %d (%s)' % (len(data), mtu, where))
    frags = [dec for _d, dec in emitted if dec['primary']['flags'] & r.FLAG_FRAGMENT]
    whole = [dec for _d, dec in emitted if not dec['primary']['flags'] & r.FLAG_FRAGMENT]
    if whole:
        altered = [d for d in whole if r.payload_block(d)['data'] != bundle['blocks'][-1]['data']]
        out.fail('unfragmented-sent-too' if not altered else 'altered-original-sent',
                 '%d unfragmented bundle(s) were transmitted besides %d fragments%s (%s)'
                 % (len(whole), len(frags), ' with altered payload' if altered else '', where))
    if not frags:
        if not whole:
            out.fail('nothing-sent', 'the bundle can be fragmented (one payload octet fits with %d octets to spare) but nothing '
                     'was transmitted (%s; error %r)' % (mtu - max(head_first, head_later), where, err))
        return out
    out.label('fragments:%s' % ('2-3' if len(frags) <= 3 else ('4-10' if len(frags) <= 10 else '>10')))
    if mode == 'originate' and err is not None:
        out.fail('send-error-after-fragmentation', 'send_bundle raised %r although the bundle went out as %d fragments (%s)'
                 % (err, len(frags), where))
    out.nontrivial = len(frags) >= 2
    ranges = []
    for dec in frags:
        pri = dec['primary']
        for key in ('dest', 'src', 'rpt', 'ts', 'lifetime', 'crc_type'):
            if pri[key] != bundle['primary'][key]:
                out.fail('fragment-identity:%s' % key, 'fragment %s is %r, original %r (%s)' % (key, pri[key], bundle['primary'][key], where))
        if pri['flags'] != bundle['primary']['flags'] | r.FLAG_FRAGMENT:
            out.fail('fragment-flags', 'fragment flags 0x%x, original 0x%x (%s)' % (pri['flags'], bundle['primary']['flags'], where))
        if pri['frag'][1] != total:
            out.fail('fragment-total', 'fragment total length %d, payload is %d (%s)' % (pri['frag'][1], total, where))
        data = bytes.fromhex(r.payload_block(dec)['data'])
        ranges.append((pri['frag'][0], pri['frag'][0] + len(data), data, dec))
        if not r.all_crc_ok(dec):
            out.fail('fragment-crc', 'fragment at offset %d has an invalid CRC (%s)' % (pri['frag'][0], where))
    ranges.sort(key=lambda x: (x[0], x[1]))
    pos = 0
    rebuilt = b''
    for start, end, data, _dec in ranges:
        if start != pos:
            out.fail('tiling-gap' if start > pos else 'tiling-overlap', 'fragment ranges %s do not tile [0,%d) (%s)'
                     % ([(a, b) for a, b, _c, _d in ranges][:8], total, where))
            break
        if end == start and total > 0:
            out.fail('empty-fragment', 'a fragment carries no payload (%s)' % where)
        pos = end
        rebuilt += data
    else:
        if pos != total:
            out.fail('tiling-incomplete', 'fragments cover [0,%d) of %d (%s)' % (pos, total, where))
        elif rebuilt != payload:
            out.fail('payload-corrupted', 'concatenated fragment payloads differ from the original (%s)' % where)
    # extension blocks: all on the first fragment, exactly the replicate ones on the others
    ext_all = sorted((b['type'], b['num'], b['flags'], b['crc_type'], b['data']) for b in sent_form['blocks'][:-1])
    ext_repl = sorted(x for x in ext_all if x[2] & 1)
    for start, _end, _data, dec in ranges:
        got = sorted((b['type'], b['num'], b['flags'], b['crc_type'], b['data']) for b in dec['blocks'][:-1])
        want = ext_all if start == 0 else ext_repl
        if got != want:
            out.fail('fragment-blocks:%s' % ('first' if start == 0 else 'later'),
                     'fragment at offset %d carries blocks %s, expected %s (%s)'
                     % (start, [(g[0], g[1]) for g in got], [(w[0], w[1]) for w in want], where))
            break
        if r.payload_block(dec)['crc_type'] != bundle['blocks'][-1]['crc_type'] or r.payload_block(dec)['flags'] != bundle['blocks'][-1]['flags']:
            out.fail('fragment-payload-meta', 'payload block flags/CRC type changed in a fragment (%s)' % where)
    return out
