''' C02 - BPv7 bundle encoding round-trips and is RFC 9171 well-formed. '''
import os
from hypothesis import strategies as st
from vlib import boot, ref9171, strat
from vlib.engine import Outcome

PROPERTY = 'C02'
RULE = ('Hypothesis draws a bundle as plain field values (flags subsets, dtn:/ipn:/dtn:none EIDs, CRC type per block, '
        'fragment fields, 0-3 extension blocks of known and unknown type, status-report payloads; integers biased to '
        'CBOR head-width boundaries) and a direction: (ref) bytes from the independent RFC 9171 encoder -> repo decode '
        '-> compare fields -> re-encode must equal the bytes; (repo) repo objects built field-by-field (BTSD octets or '
        'payload objects; times as integers, datetime objects or ISO 8601 text) -> agent finalisation -> independent decoder must accept the structure and return the '
        'generated values, repo must decode its own bytes to the same fields and re-encode identically. '
        'Non-trivial = at least one extension block and at least one integer field on a CBOR head-width boundary '
        '(>= 23); distinct by SHA-1 of the canonical case.')
ASSUMPTIONS = [
    'reference codec vlib/ref9171.py + vlib/cborpull.py written from RFC 9171/8949, independent of cbor2 and scapy',
    'EID texts are restricted to the RFC 9171 dtn/ipn grammar; demux characters "?" and "#" are generated only in the '
    'labelled class eid_query_char',
    'status-report reason codes are the IANA registry values 0..16 or, in the labelled class reason-unassigned, other '
    'unsigned integers; administrative records of other types and fragments carrying a slice of a record are generated too',
]


def prepare():
    boot.bp()


def budgets(tier):
    if tier == 'quick':
        return dict(shards=16, examples=120)
    return dict(shards=16, examples=6000, deadline_s=3000)


ASB_VALUES = [0, 1, 23, 24, 255, 256, 65536, -1, {'b': ''}, {'b': '00'}, {'b': 'a1b2c3d4e5f6'}, [1, 2], [], {'b': '5a' * 40}]


@st.composite
def asb_cases(draw):
    ''' An abstract security block (RFC 9172 3.6) as field values: the block-type-specific data of a BIB / BCB. '''
    n_targets = draw(st.integers(1, 4))
    targets = draw(st.lists(st.sampled_from([0, 0, 1, 2, 3, 23, 24, 255, 256, 65536]), min_size=n_targets, max_size=n_targets, unique=True))
    value = st.sampled_from(ASB_VALUES)
    pair = st.tuples(st.sampled_from([0, 1, 2, 3, 4, 5, 17, 24, 97, 256]), value).map(list)
    params = draw(st.one_of(st.none(), st.lists(pair, max_size=4)))
    results = [draw(st.lists(pair, max_size=3)) for _ in targets]
    return {'kind': 'asb', 'type': draw(st.sampled_from([11, 12])), 'targets': targets, 'ctx': draw(st.sampled_from([1, 2, 3, 23, 24, 99, 256, 65536])),
            'src': draw(strat.eids(allow_none=False)), 'params': params, 'results': results,
            'pcrc': draw(st.sampled_from([0, 1, 2])), 'bcrc': draw(st.sampled_from([0, 1, 2]))}


def enumerate_cases(tier):
    ''' Status reports with DTN time 0 ("unknown", what a reporter without a clock writes) at each position, in every direction
    and time form; abstract security blocks whose target list holds block number 0 (the primary block), alone, first, last. '''
    base = {'primary': dict(version=7, flags=ref9171.FLAG_ADMIN, crc_type=1, dest=['dtn', '//dst/'], src=['dtn', '//src/'],
                            rpt=['dtn', 'none'], ts=[1000, 1], lifetime=3600, frag=None)}
    for pos in range(4):
        for others in (False, True):
            status = [[True, 0] if i == pos else ([True, 5 + i] if others else [False]) for i in range(4)]
            rep = ref9171.status_report(status, 0, ['dtn', '//subject/'], [77, 3], None)
            bundle = dict(base, blocks=[dict(type=1, num=1, flags=0, crc_type=2, data=rep)])
            for mode in ('ref', 'repo', 'repo-obj'):
                for timeform in ('int', 'datetime', 'reassign'):
                    if mode == 'repo' and timeform != 'int':
                        continue
                    yield {'bundle': bundle, 'mode': mode, 'timeform': timeform}
    for targets in ([0], [0, 1], [1, 0], [2, 0, 1], [3, 2, 1], [1, 2, 3], [24, 23]):
        for btype in (11, 12):
            for params in (None, [[1, 5]], [[5, 3], [1, {'b': '0102'}]]):
                yield {'kind': 'asb', 'type': btype, 'targets': targets, 'ctx': 3, 'src': ['dtn', '//sec/'], 'params': params,
                       'results': [[[1, {'b': '%02x' % t * 4}]] for t in targets], 'pcrc': 1, 'bcrc': 0}


def strategy(tier):
    return st.one_of(_bundle_cases(), _bundle_cases(), _bundle_cases(), asb_cases())


def _bundle_cases():
    return st.fixed_dictionaries({
        'bundle': st.one_of(strat.bundles(), strat.bundles(extended_eid=True, max_ext=1)),
        'mode': st.sampled_from(['ref', 'repo', 'repo-obj']),
        # how times are given to the encoding classes in the repo modes (DtnTimeField converts datetime objects and text)
        # ('reassign': every time of the decoded bundle is read through the attribute interface and written back unchanged
        # before it is encoded again)
        'timeform': st.sampled_from(['int', 'datetime', 'text', 'datetime-zone', 'text-zone', 'reassign']),
    })


def pinned_cases():
    base = {'primary': dict(version=7, flags=0, crc_type=2, dest=['dtn', '//dst/svc'], src=['dtn', '//src/'],
                            rpt=['dtn', 'none'], ts=[24, 256], lifetime=65536, frag=None),
            'blocks': [dict(type=10, num=2, flags=1, crc_type=1, data=ref9171.btsd_hop_count(24, 3)),
                       dict(type=1, num=1, flags=0, crc_type=2, data='00' * 24)]}
    yield 'basic-ref', {'bundle': base, 'mode': 'ref'}
    # about a hundred canonical blocks (a list length at which dissectors built on scapy change behaviour)
    for count in (99, 100, 101, 150):
        many = [dict(type=192 + i % 3, num=2 + i, flags=0, crc_type=i % 3, data='%02x' % (i % 256)) for i in range(count)]
        for mode in ('ref', 'repo'):
            yield 'bundle-with-%d-extension-blocks-%s' % (count, mode), {'bundle': dict(base, blocks=many + [base['blocks'][-1]]), 'mode': mode}
    zero = dict(base, primary=dict(base['primary'], ts=[0, 17]))
    yield 'time-zero-read-and-written-back', {'bundle': zero, 'mode': 'ref', 'timeform': 'reassign'}
    yield 'basic-repo', {'bundle': base, 'mode': 'repo-obj'}


def _eid_has_query(bundle):
    pri = bundle['primary']
    eids = [pri['dest'], pri['src'], pri['rpt']]
    return any(e[0] == 'dtn' and ('?' in e[1] or '#' in e[1]) for e in eids)


def _diff(expect, got):
    out = []
    for key in expect['primary']:
        if expect['primary'][key] != got['primary'].get(key):
            out.append('primary.%s: expected %r got %r' % (key, expect['primary'][key], got['primary'].get(key)))
    if len(expect['blocks']) != len(got['blocks']):
        out.append('block count: expected %d got %d' % (len(expect['blocks']), len(got['blocks'])))
    else:
        for idx, (eb, gb) in enumerate(zip(expect['blocks'], got['blocks'])):
            for key in eb:
                if eb[key] != gb.get(key):
                    out.append('blocks[%d].%s: expected %r got %r' % (idx, key, str(eb[key])[:60], str(gb.get(key))[:60]))
    return out


def _reassign_times(obj):
    ''' Read every time value of a decoded bundle the way a user of the classes does (attribute access) and write the
    same value back: nothing has changed, so the encoding must not change either. '''
    from bp.encoding import StatusReport
    ts = obj.primary.create_ts
    ts.dtntime = ts.dtntime
    for blk in obj.blocks:
        rep = blk.getlayer(StatusReport) if hasattr(blk, 'getlayer') else None
        if rep is None:
            continue
        # (the octets of the block are kept by the decoder; they are dropped so that the objects are encoded)
        if rep.subj_ts is not None:
            rep.subj_ts.dtntime = rep.subj_ts.dtntime
        for name in ('received', 'forwarded', 'delivered', 'deleted'):
            info = getattr(rep.status, name, None) if rep.status is not None else None
            if info is not None and info.at is not None:
                info.at = info.at


def _asb_py(val):
    if isinstance(val, dict):
        return bytes.fromhex(val['b'])
    if isinstance(val, list):
        return [_asb_py(v) for v in val]
    return val


def execute_asb(case):
    ''' The abstract security block of a BIB / BCB: reference octets -> repo fields (every field as the reference wrote it),
    the decoded payload object encodes to the same octets again; built from field values by the repo -> the independent
    parser reads the same values (targets and results in the order given: result list i belongs to target i). '''
    from vlib import refcose as rc, cborpull as cb
    from bp.encoding import Bundle, CanonicalBlock, PrimaryBlock, Timestamp
    from bp.encoding.bpsec import AbstractSecurityBlock, BlockIntegrityBlock, BlockConfidentialityBlock, TypeValuePair, TargetResultList
    out = Outcome()
    params = None if case['params'] is None else [[pid, _asb_py(val)] for pid, val in case['params']]
    results = [[[rid, _asb_py(val)] for rid, val in target] for target in case['results']]
    asb = dict(targets=list(case['targets']), ctx=case['ctx'], flags=0 if params is None else 1, src=case['src'], params=params, results=results)
    data_hex = rc.encode_asb(asb)
    pri = dict(version=7, flags=0, crc_type=case['pcrc'], dest=['dtn', '//dst/svc'], src=['dtn', '//src/'], rpt=['dtn', 'none'],
               ts=[1000, 5], lifetime=3600, frag=None)
    bundle = {'primary': pri, 'blocks': [dict(type=case['type'], num=5, flags=0, crc_type=case['bcrc'], data=data_hex),
                                         dict(type=192, num=2, flags=0, crc_type=0, data='aa'), dict(type=193, num=3, flags=0, crc_type=0, data='bb'),
                                         dict(type=1, num=1, flags=0, crc_type=case['bcrc'], data='00112233')]}
    out.label('asb', 'asb-type:%d' % case['type'], 'asb-targets:%d' % len(case['targets']), 'asb-params:%s' % ('none' if params is None else len(params)))
    if 0 in case['targets']:
        out.label('asb-targets-primary-block')
    if case['targets'] != sorted(case['targets']):
        out.label('asb-targets-not-ascending')
    out.nontrivial = len(case['targets']) >= 2 or 0 in case['targets']
    wire = ref9171.encode(bundle)

    def fields_of(payload):
        got = dict(targets=[int(t) for t in payload.getfieldval('targets')], ctx=int(payload.getfieldval('context_id')),
                   flags=int(payload.getfieldval('context_flags')), src=ref9171.eid_parse(payload.getfieldval('source')))
        plist = payload.getfieldval('parameters')
        got['params'] = None if not got['flags'] & 1 else [[int(p.getfieldval('type_code')), p.getfieldval('value')] for p in (plist or [])]
        got['results'] = [[[int(r.getfieldval('type_code')), r.getfieldval('value')] for r in (t.getfieldval('results') or [])]
                          for t in payload.getfieldval('results')]
        return got
    want = dict(targets=asb['targets'], ctx=asb['ctx'], flags=asb['flags'], src=list(asb['src']), params=params, results=results)
    # reference octets -> repo
    try:
        obj = Bundle(wire)
        blk = [b for b in obj.getfieldval('blocks') if int(b.getfieldval('type_code')) == case['type']][0]
        payload = blk.payload
        if not isinstance(payload, AbstractSecurityBlock):
            out.fail('asb-not-decoded', 'the block-type-specific data of a type %d block did not decode as an abstract security block (%s)'
                     % (case['type'], type(payload).__name__))
        else:
            got = fields_of(payload)
            got['src'] = list(got['src'])
            diffs = ['%s: expected %r got %r' % (k, want[k], got[k]) for k in want if want[k] != got[k]]
            if diffs:
                out.fail('asb-decode-fields-differ', 'decoded security block fields differ: ' + '; '.join(diffs[:3]))
            again = bytes(payload)
            if again.hex() != data_hex:
                out.fail('asb-reencode-differs', 'the decoded security block encodes to other octets: %s, original %s' % (again.hex()[:80], data_hex[:80]))
        if bytes(obj) != wire:
            out.fail('reencode-differs', 're-encoding the decoded bundle changes its bytes')
    except Exception as err:
        out.fail('decode-raises:%s' % type(err).__name__, 'repo cannot decode a bundle with a well-formed security block: %s: %s' % (type(err).__name__, err))
    # field values -> repo -> octets -> independent parser
    try:
        cls = BlockIntegrityBlock if case['type'] == 11 else BlockConfidentialityBlock
        kwargs = dict(targets=list(asb['targets']), context_id=asb['ctx'], context_flags=asb['flags'], source=ref9171.eid_text(asb['src']),
                      results=[TargetResultList(results=[TypeValuePair(type_code=rid, value=val) for rid, val in target]) for target in results])
        if params is not None:
            kwargs['parameters'] = [TypeValuePair(type_code=pid, value=val) for pid, val in params]
        built = CanonicalBlock(type_code=case['type'], block_num=5, block_flags=0, crc_type=case['bcrc']) / cls(**kwargs)
        built.ensure_block_type_specific_data()
        made = bytes(built.getfieldval('btsd'))
    except Exception as err:
        out.fail('encode-raises:%s' % type(err).__name__, 'repo cannot build a security block from its field values: %s: %s' % (type(err).__name__, err))
        return out
    try:
        back = rc.parse_asb(made.hex())
    except (rc.CoseError, cb.CborError, ref9171.RefError) as err:
        out.fail('asb-not-wellformed', 'the independent parser rejects the security block the repo built: %s' % err)
        return out
    back.pop('src_raw', None)
    back['src'] = list(back['src'])
    diffs = ['%s: expected %r got %r' % (k, want[k], back.get(k)) for k in want if want[k] != back.get(k)]
    if diffs:
        out.fail('asb-encode-fields-differ', 'the independent parser reads other values from the security block the repo built: ' + '; '.join(diffs[:3]))
    return out


def execute(case):
    if case.get('kind') == 'asb':
        return execute_asb(case)
    from vlib import bpconv
    from bp.encoding import Bundle
    out = Outcome()
    bundle = case['bundle']
    mode = case['mode']
    n_ext = len(bundle['blocks']) - 1
    out.nontrivial = n_ext >= 1 and strat.hits_boundary(bundle)
    out.label('mode:' + mode, 'ext:%d' % n_ext, 'pcrc:%d' % bundle['primary']['crc_type'],
              'admin' if bundle['primary']['flags'] & ref9171.FLAG_ADMIN else 'data',
              'frag' if bundle['primary']['frag'] else 'whole')
    for eid in (bundle['primary']['dest'], bundle['primary']['src']):
        out.label('eid:' + (eid[0] if eid[1] != 'none' else 'none'))
    if bundle['primary']['flags'] & ref9171.FLAG_ADMIN:
        try:
            rep = ref9171.parse_status_report(bundle['blocks'][-1]['data'])
            out.label('status-report', 'reason-unassigned' if rep['reason'] > 16 else 'reason-assigned')
        except ref9171.RefError:
            out.label('admin-not-a-status-report' if not bundle['primary']['frag'] else 'admin-fragment-slice-or-other')
    qclass = _eid_has_query(bundle)
    if qclass:
        out.label('eid_query_char')
    sfx = ''
    expect = ref9171.strip(dict(bundle))

    if mode == 'ref':
        wire = ref9171.encode(bundle)
        try:
            obj = Bundle(wire)
            got = bpconv.from_repo(obj)
        except Exception as err:
            out.fail('decode-raises:%s%s' % (type(err).__name__, sfx),
                     'repo cannot decode a reference-encoded bundle: %s: %s' % (type(err).__name__, err))
            return out
        diffs = _diff(expect, got)
        if diffs:
            out.fail('decode-fields-differ' + sfx, 'decoded field values differ: ' + '; '.join(diffs[:3]))
        if case.get('timeform') == 'reassign':
            _reassign_times(obj)
            out.label('timeform:reassign')
        try:
            again = bytes(obj)
        except Exception as err:
            out.fail('reencode-raises:%s%s' % (type(err).__name__, sfx), 're-encoding a decoded bundle raises: %s' % err)
            return out
        if again != wire:
            where = next((i for i in range(min(len(again), len(wire))) if again[i] != wire[i]), min(len(again), len(wire)))
            out.fail('reencode-differs' + sfx, 're-encoding a decoded bundle changes the bytes at offset %d '
                     '(len %d -> %d)' % (where, len(wire), len(again)))
        return out

    # repo object -> bytes
    try:
        obj = bpconv.to_repo(bundle, objform=(mode == 'repo-obj'), timeform=case.get('timeform'))
        out.label('timeform:%s' % case.get('timeform', 'int'))
        wire = bpconv.finalize(obj)
    except Exception as err:
        out.fail('encode-raises:%s%s' % (type(err).__name__, sfx), 'repo cannot encode a well-formed bundle: %s: %s'
                 % (type(err).__name__, err))
        return out
    try:
        dec = ref9171.decode(wire)
    except ref9171.RefError as err:
        out.fail('not-wellformed' + sfx, 'independent decoder rejects the encoding: %s' % err)
        return out
    diffs = _diff(expect, ref9171.strip(dec))
    if diffs:
        out.fail('encode-fields-differ' + sfx, 'independent decoder reads different values: ' + '; '.join(diffs[:3]))
    if not ref9171.all_crc_ok(dec):
        out.fail('encode-crc-invalid', 'independent decoder finds an invalid CRC in the encoding')
    try:
        back = Bundle(wire)
        got = bpconv.from_repo(back)
        again = bytes(back)
    except Exception as err:
        out.fail('selfdecode-raises:%s%s' % (type(err).__name__, sfx), 'repo cannot decode its own encoding: %s' % err)
        return out
    diffs = _diff(expect, got)
    if diffs:
        out.fail('selfdecode-fields-differ' + sfx, 'repo decodes its own encoding to different values: ' + '; '.join(diffs[:3]))
    if again != wire:
        out.fail('selfreencode-differs' + sfx, 'decode then re-encode of the repo encoding changes the bytes')
    return out
