#!/venv/bin/python
''' Run every check (quick tier) of the affected package family against every seeded change in /verif/seeded
(results already in seeded/matrix.json are kept; delete the file to start over).

Each run uses tools/mutate.py: a scratch copy of /repo/src under /tmp with the
patch applied, removed afterwards; /repo itself is never touched.  The result
table goes to seeded/matrix.json (which check caught which change, and in
which buckets) and is printed.

  tools/seedmatrix.py [--jobs 4] [--only S11,S12] [--checks C03,C12]
'''
import concurrent.futures
import json
import os
import re
import subprocess
import sys

VERIF = os.path.dirname(os.path.dirname(os.path.abspath(__file__)))


def run(seed_dir, check):
    patch = os.path.join(VERIF, 'seeded', seed_dir, 'patch.diff')
    proc = subprocess.run([sys.executable, os.path.join(VERIF, 'tools', 'mutate.py'), check, '--patch', patch],
                          stdout=subprocess.PIPE, stderr=subprocess.STDOUT, text=True)
    text = proc.stdout
    buckets = sorted(set(re.findall(r'violation bucket=(\S+)', text)))
    m = re.search(r'MUTANT (CAUGHT|MISSED) \(exit (\d+)\)', text)
    verdict = m.group(1) if m else 'ERROR'
    code = int(m.group(2)) if m else -1
    if verdict == 'MISSED' and code != 0:
        verdict = 'ERROR(exit %d)' % code
    return seed_dir, check, verdict, buckets


FAMILIES = {
    # (C10 and C18 also run whole nodes: BP agent + adaptors + TCPCL / UDPCL agents)
    'tcpcl': ['C01', 'C04', 'C07', 'C09', 'C10', 'C14', 'C15', 'C17', 'C18'],
    'bp': ['C02', 'C03', 'C05', 'C06', 'C08', 'C10', 'C11', 'C12', 'C16', 'C18', 'C19'],
    'udpcl': ['C10', 'C13', 'C18'],
    'scapy_cbor': ['C02', 'C03', 'C05', 'C06', 'C08', 'C10', 'C11', 'C12', 'C16', 'C18', 'C19'],
    'btpu': ['C20'],
}


def family(seed_dir):
    ''' Checks that import the package(s) a patch touches (a patch to src/tcpcl cannot change what the BP checks run). '''
    text = open(os.path.join(VERIF, 'seeded', seed_dir, 'patch.diff')).read()
    out = set()
    for pkg, checks in FAMILIES.items():
        if ' b/src/%s/' % pkg in text:
            out.update(checks)
    return out


def main():
    args = sys.argv[1:]
    jobs = 4
    only = None
    own_only = False
    checks = ['C%02d' % i for i in range(1, 21)]
    while args:
        arg = args.pop(0)
        if arg == '--jobs':
            jobs = int(args.pop(0))
        elif arg == '--only':
            only = args.pop(0).split(',')
        elif arg == '--own-only':
            own_only = True
        elif arg == '--checks':
            checks = args.pop(0).split(',')
    seeds = sorted(d for d in os.listdir(os.path.join(VERIF, 'seeded')) if os.path.isdir(os.path.join(VERIF, 'seeded', d)))
    if only:
        seeds = [s for s in seeds if s.split('-')[0] in only]
    path = os.path.join(VERIF, 'seeded', 'matrix.json')
    table = json.load(open(path)) if os.path.exists(path) else {}
    with concurrent.futures.ThreadPoolExecutor(jobs) as pool:
        todo = [(s, c) for s in seeds for c in checks if c in family(s) and c not in table.get(s, {})]
        # the check of the property a change was aimed at first (directory name Snn-Cxx-...), the cross results afterwards
        todo.sort(key=lambda sc: (sc[0].split('-')[1] != sc[1], sc[0], sc[1]))
        if own_only:
            todo = [sc for sc in todo if sc[0].split('-')[1] == sc[1]]
        futs = [pool.submit(run, s, c) for s, c in todo]
        for fut in concurrent.futures.as_completed(futs):
            seed_dir, check, verdict, buckets = fut.result()
            table.setdefault(seed_dir, {})[check] = {'verdict': verdict, 'buckets': buckets}
            print(seed_dir, check, verdict, ','.join(buckets)[:120], flush=True)
            json.dump(table, open(path, 'w'), indent=1, sort_keys=True)
    for seed_dir in sorted(table):
        caught = [c for c in sorted(table[seed_dir]) if table[seed_dir][c]['verdict'] == 'CAUGHT']
        errs = [c for c in sorted(table[seed_dir]) if table[seed_dir][c]['verdict'].startswith('ERROR')]
        print('%-45s caught by %s%s' % (seed_dir, ' '.join(caught) or '-', ('  ERRORS: ' + ' '.join(errs)) if errs else ''))


if __name__ == '__main__':
    main()
