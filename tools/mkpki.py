#!/venv/bin/python
''' Regenerate fixtures/pki.json (fixed test keys and certificates for the COSE_Sign1 cases of C03). '''
import json
import os
import sys

VERIF = os.path.dirname(os.path.dirname(os.path.abspath(__file__)))
sys.path.insert(0, VERIF)
from vlib import boot  # noqa: E402
boot.bp()
from vlib import bpsec_util as bu  # noqa: E402

path = os.path.join(VERIF, 'fixtures', 'pki.json')
# (entries that exist are kept as they are: the fixtures are fixed)
out = json.load(open(path)) if os.path.exists(path) and '--all' not in sys.argv else {}
have = set(out)
for curve in ('p256', 'p384'):
    for which in (0, 1):
        if '%s-%d' % (curve, which) not in have:
            out['%s-%d' % (curve, which)] = bu.generate_pki('dtn://srcnode/', curve, which)
# key set 2: the end-entity key has a public coordinate with a leading zero octet
if 'p256-2' not in have:
    out['p256-2'] = bu.generate_pki('dtn://srcnode/', 'p256', 2, short_coordinate=True)
# key set 3: the end-entity certificates carry no subject key identifier
if 'p256-3' not in have:
    out['p256-3'] = bu.generate_pki('dtn://srcnode/', 'p256', 3, no_ski=True)
json.dump(out, open(path, 'w'), indent=1, sort_keys=True)
print('written')
