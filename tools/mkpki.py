#!/venv/bin/python
''' Regenerate fixtures/pki.json (fixed test keys and certificates for the COSE_Sign1 cases of C03). '''
import json
import os
import sys

VERIF = os.path.dirname(os.path.dirname(os.path.abspath(__file__)))
sys.path.insert(0, VERIF)
from vlib import boot  # noqa: E402
boot.bp()
from vlib import bpsec_util as bu  # noqa: E402

out = {}
for curve in ('p256', 'p384'):
    for which in (0, 1):
        out['%s-%d' % (curve, which)] = bu.generate_pki('dtn://srcnode/', curve, which)
# key set 2: the end-entity key has a public coordinate with a leading zero octet
out['p256-2'] = bu.generate_pki('dtn://srcnode/', 'p256', 2, short_coordinate=True)
json.dump(out, open(os.path.join(VERIF, 'fixtures', 'pki.json'), 'w'), indent=1, sort_keys=True)
print('written')
