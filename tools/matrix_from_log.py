#!/venv/bin/python
''' Record the outcome of one "tools/mutate.py Cxx --patch seeded/<id>/patch.diff" run (its saved output) in
seeded/matrix.json, parsed the way tools/seedmatrix.py parses it:  tools/matrix_from_log.py <seed id> <check> <log file> '''
import json
import os
import re
import sys

VERIF = os.path.dirname(os.path.dirname(os.path.abspath(__file__)))


def main():
    sid, check, log = sys.argv[1:4]
    text = open(log, errors='replace').read()
    buckets = sorted(set(re.findall(r'violation bucket=(\S+)', text)))
    m = re.search(r'MUTANT (CAUGHT|MISSED) \(exit (\d+)\)', text)
    if not m:
        raise SystemExit('no verdict in %s' % log)
    path = os.path.join(VERIF, 'seeded', 'matrix.json')
    matrix = json.load(open(path))
    matrix.setdefault(sid, {})[check] = {'buckets': buckets, 'verdict': m.group(1)}
    json.dump(matrix, open(path, 'w'), indent=1, sort_keys=True)
    print(sid, check, m.group(1), ','.join(buckets))


if __name__ == '__main__':
    main()
