#!/bin/bash
# tools/confirmseed.sh <worktree> : re-run what a seeder claims (diff == patch.diff, pinned suite, demo both ways).
# Leaves the change applied in the worktree.
wt=$1
cd "$wt" || exit 2
git diff -- src > /tmp/conf/$$.diff
if diff -q /tmp/conf/$$.diff patch.diff >/dev/null; then echo "DIFF: worktree diff == patch.diff ($(grep -c '^[-+][^-+]' patch.diff) changed lines, files: $(git diff --name-only -- src | tr '\n' ' '))"; else echo "DIFF: MISMATCH"; fi
rm -f /tmp/conf/$$.diff
echo "SUITE (with change): $(/venv/bin/python -m pytest -q -p no:cacheprovider --continue-on-collection-errors 2>&1 | tail -1)"
/venv/bin/python demo_break.py > /tmp/conf/$$.with 2>&1; echo "DEMO with change: exit $?"
git apply -R patch.diff || echo 'REVERT FAILED'
git diff --quiet -- src || echo 'WARNING: tree not clean after revert'
/venv/bin/python demo_break.py > /tmp/conf/$$.without 2>&1; echo "DEMO without change: exit $?"
git apply patch.diff || echo 'REAPPLY FAILED'
git diff --quiet -- src && echo "WARNING: change not restored"
rm -f /tmp/conf/$$.with /tmp/conf/$$.without
find . -name __pycache__ -type d -prune -exec rm -rf {} + 2>/dev/null
