#!/venv/bin/python
''' Keep a confirmed seeded change: tools/storeseed.py <Sxx-Cyy-slug> <worktree dir> <json file with breaks/needs/missed/detected>. '''
import json
import os
import shutil
import sys

VERIF = os.path.dirname(os.path.dirname(os.path.abspath(__file__)))


def store(sid, wt, info):
    dest = os.path.join(VERIF, 'seeded', sid)
    os.makedirs(dest, exist_ok=True)
    for name in ('patch.diff', 'demo_break.py', 'NOTES.md'):
        shutil.copy(os.path.join(wt, name), os.path.join(dest, name))
    stubs = os.path.join(dest, 'demo_stubs')
    if os.path.isdir(stubs):
        shutil.rmtree(stubs)
    if os.path.isdir(os.path.join(wt, 'demo_stubs')):
        shutil.copytree(os.path.join(wt, 'demo_stubs'), stubs, ignore=shutil.ignore_patterns('__pycache__', '*.pyc'))
    prop = sid.split('-')[1]
    meta = {'id': sid, 'property': prop,
            'origin': 'independent sub-agent working only from the property text (and, from round 2 on, a list of ideas already '
                      'used) in a scratch worktree of /repo (no access to /verif)',
            'breaks': info['breaks'], 'needs_to_manifest': info['needs'],
            'confirmed_by_me': ['worktree diff == patch.diff', 'pinned suite with the change: 59 passed, 10 errors',
                                'demo_break.py exits 1 with the change and 0 without it (both re-run by me)'],
            'checks_run': ['tools/mutate.py %s --patch seeded/%s/patch.diff (scratch copy of /repo/src, quick tier)' % (prop, sid)],
            'missed_at_first': bool(info.get('missed')), 'detected_by': [info['detected']]}
    json.dump(meta, open(os.path.join(dest, 'meta.json'), 'w'), indent=1)


if __name__ == '__main__':
    store(sys.argv[1], sys.argv[2], json.load(open(sys.argv[3])))
