#!/venv/bin/python
''' Regenerates MANIFEST.json from the table below and validates it. '''
import json
import os
import sys

VERIF = os.path.dirname(os.path.dirname(os.path.abspath(__file__)))

# id: (category, technique, level text, level note, design_ref)
CHECKS = {}
NOT_YET = {}


def add(pid, category, technique, text, note, ref):
    CHECKS[pid] = (category, technique, text, note, ref)


exec(open(os.path.join(VERIF, 'tools', 'manifest_table.py')).read())

props = [json.loads(l)['id'] for l in open(os.path.join(VERIF, 'properties.jsonl'))]
checks = []
for pid in props:
    if pid not in CHECKS:
        continue
    if not os.path.exists(os.path.join(VERIF, 'checks', pid + '.py')):
        raise SystemExit('no check module for ' + pid)
    cat, tech, text, note, ref = CHECKS[pid]
    checks.append(dict(
        property_id=pid,
        quick_cmd='/venv/bin/python run.py %s --tier quick' % pid,
        thorough_cmd='/venv/bin/python run.py %s --tier thorough' % pid,
        evidence_file='/verif/evidence/%s.json' % pid,
        replay_cmd_template='/venv/bin/python run.py %s --replay {path}' % pid,
        engine='hypothesis-engine',
        level_claimed=dict(category=cat, text=text, design_ref=ref),
        level_note=note,
        technique=tech,
    ))
not_app = [dict(property_id=pid, reason=NOT_YET.get(pid, 'check not built yet in this session; no claim is made'))
           for pid in props if pid not in CHECKS]
manifest = dict(
    version=1,
    setup_cmd="/venv/bin/python -c 'import hypothesis' 2>/dev/null || /venv/bin/pip install --no-index --find-links /opt/veriftools/wheels hypothesis",
    hooks=dict(guard='BRIANSIPOS_DTN_DEMO_AGENT_VERIF', enable='no hooks: checks import /repo/src directly with stand-in libraries from /verif/shims',
               baseline_off_cmd='cd /repo && /venv/bin/python -m pytest -ra -q -p no:cacheprovider --timeout=900 --continue-on-collection-errors',
               source_commits=[], add_only=True),
    engines=[dict(name='hypothesis-engine', path='/verif/vlib/engine.py', serves_properties=[c['property_id'] for c in checks],
                  kind_free_text='Hypothesis 6.168 strategies producing plain-JSON cases (operation lists for histories), '
                                 'collect-and-bucket violation handling, structural ddmin, exhaustive itertools enumeration '
                                 'for small finite spaces, 16 process shards')],
    checks=checks,
    notes='Runner: run.py <id> --tier quick|thorough; exit 0/1/2 (2 = harness error). Known findings: known_findings.json. '
          'Sensitivity mutants: tools/mutate.py; seeded changes: seeded/.',
    not_applicable=not_app,
)
with open(os.path.join(VERIF, 'MANIFEST.json'), 'w') as out:
    json.dump(manifest, out, indent=1)
try:
    import jsonschema
    jsonschema.validate(manifest, json.load(open('/root/.vp/MANIFEST.schema.json')))
    print('manifest valid (jsonschema), %d checks, %d not_applicable' % (len(checks), len(not_app)))
except ImportError:
    print('manifest written (jsonschema not importable here), %d checks' % len(checks))
