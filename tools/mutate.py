#!/venv/bin/python
''' Sensitivity testing: run a check against a mutated scratch copy of the
repository sources (never /repo itself).

  tools/mutate.py Cxx FILE 'old text' 'new text' [FILE old new ...]  [--tier quick]
  tools/mutate.py Cxx --patch some.diff

The scratch copy lives under /tmp and is removed afterwards; evidence and
replay files of the mutant run go to a scratch directory too.
Exit status 0 = the check caught the mutant (exit 1 + VIOLATION line).
'''
import os
import shutil
import subprocess
import sys
import tempfile

VERIF = os.path.dirname(os.path.dirname(os.path.abspath(__file__)))


def main():
    args = sys.argv[1:]
    prop = args.pop(0)
    tier = 'quick'
    if '--tier' in args:
        idx = args.index('--tier')
        tier = args[idx + 1]
        del args[idx:idx + 2]
    scratch = tempfile.mkdtemp(prefix='mut-')
    try:
        shutil.copytree('/repo/src', os.path.join(scratch, 'src'),
                        ignore=shutil.ignore_patterns('__pycache__', '*.pyc'))
        if args and args[0] == '--patch':
            subprocess.check_call(['patch', '-p1', '-s', '-d', scratch, '-i', os.path.abspath(args[1])])
        else:
            while args:
                fname, old, new = args[0], args[1], args[2]
                del args[:3]
                path = os.path.join(scratch, 'src', fname)
                text = open(path).read()
                if text.count(old) != 1:
                    print('MUTATION-ERROR: %r occurs %d times in %s' % (old, text.count(old), fname))
                    return 3
                open(path, 'w').write(text.replace(old, new))
        env = dict(os.environ)
        env['VERIF_REPO_SRC'] = os.path.join(scratch, 'src')
        env['VERIF_OUT_DIR'] = os.path.join(scratch, 'out')
        env.setdefault('VERIF_CASE_TIMEOUT', '20')   # a mutant that makes a case spin is abandoned quickly
        proc = subprocess.run([sys.executable, os.path.join(VERIF, 'run.py'), prop, '--tier', tier, '--no-minimise'],
                              env=env, stdout=subprocess.PIPE, stderr=subprocess.STDOUT, text=True, timeout=1500)
        lines = proc.stdout.strip().splitlines()
        for line in lines[-8:]:
            print('   ', line[:300])
        caught = proc.returncode == 1 and any(l.startswith('VIOLATION') for l in lines)
        print('MUTANT %s (exit %d)' % ('CAUGHT' if caught else 'MISSED', proc.returncode))
        return 0 if caught else 1
    finally:
        shutil.rmtree(scratch, ignore_errors=True)


if __name__ == '__main__':
    sys.exit(main())
