add('C02', 'exploration', 'property-based testing (Hypothesis): round-trip + differential against an independent RFC 9171 codec',
    'Generated bundles (field values on CBOR head boundaries, all block kinds, status reports) are round-tripped through '
    'the repo codec in both directions and every encoding is judged by an independent byte-level RFC 9171 decoder; '
    'exploration is the right level because the value space is unbounded and the oracle is exact per case.',
    'Trusts vlib/ref9171.py + cborpull.py (written from the RFCs), Hypothesis, cbor2/scapy as installed; EIDs limited to the RFC 9171 dtn/ipn grammar.',
    'DESIGN.md section 3 C02')
add('C01', 'exploration', 'model-based property testing (Hypothesis operation lists) of two real endpoints on a virtual event loop and simulated TCP, FIFO reference model',
    'Generated schedules, chunkings, back-pressure and user-call interleavings of two real ContactHandlers are compared with a per-direction FIFO model and an independent RFC 9174 reassembly of the wire; the space of schedules is unbounded, so this is exploration with measured class coverage.',
    'Trusts the GLib dispatch model (vlib/simloop.py), the non-blocking socket model (vlib/simnet.py), vlib/ref9174.py and the dbus stand-in; timers and TLS are off here.',
    'DESIGN.md section 3 C01')
add('C04', 'exploration', 'model-based property testing with a wire monitor automaton fed by an independent RFC 9174 decoder',
    'Every octet either endpoint writes in generated two-party histories (including terminate() at arbitrary points) is parsed by an independent decoder and run through a sequencing monitor (contact header, SESS_INIT, transfer/segment/ACK rules, MRU, SESS_TERM).',
    'Same trusted base as C01; XFER_REFUSE/MSG_REJECT never occur between two conforming endpoints, the ACK mapping is skipped if they do.',
    'DESIGN.md section 3 C04')
add('C09', 'exploration', 'model-based property testing with fault injection (terminate/close/peer loss at generated and exhaustively enumerated cut points), bounded-step liveness',
    'terminate()/close()/peer-vanish are injected at generated points and, exhaustively, at every scheduler step of fixed base scenarios; safety clauses are judged on the event and octet logs, liveness as quiescence of a fair drain with both sockets closed.',
    'Liveness is bounded-step under a fair schedule on the virtual loop, not unbounded liveness; timers off (C14 owns them); abrupt close()/peer loss are exempt from the completion and reporting clauses; agent-level shutdown()/stop() cases use one real Agent with 1-4 contacts against scripted cooperative peers.',
    'DESIGN.md section 3 C09')
add('C07', 'exploration', 'property-based testing + exhaustive cut enumeration; differential against an independent RFC 9174 codec',
    'Conforming peer streams are cut in every way for short streams (all 2^(n-1) compositions), at every single position and octet-by-octet for fixed longer streams, and boundary-directed/randomly for generated streams; the messages a real ContactHandler acts on, the read in which it acts and its buffer occupancy are compared with an independent incremental parser; all message types are round-tripped against the independent codec.',
    'Trusts vlib/ref9174.py; a read = one recv() on the simulated socket; streams holding an unknown message type (which nobody can frame) are judged metamorphically: same stream, four cut sets, same acted-on sequence and answers; MSG_REJECT octet order taken from the pinned unit test.',
    'DESIGN.md section 3 C07')
add('C17', 'exploration', 'model-based fuzzing of one real endpoint by a scripted adversarial peer (state-directed message alphabet), exhaustive for short words, Hypothesis beyond',
    'All words of up to 2/3 out-of-place messages in each protocol phase plus generated longer scripts are played against a real ContactHandler; escaping exceptions are bucketed by (type, innermost repo frame), each listed out-of-place message must be answered by MSG_REJECT/SESS_TERM/close, delivered data is compared with a reference reassembly and the endpoint own transfers must still complete.',
    'Messages are delivered whole (chunking is C07) except a refused contact header joined with what follows; adversarial ids collide with own ids only before the session exists or, under back-pressure, for a final ACK whose last segment is still unsent; answers are only required for the cases the property lists.',
    'DESIGN.md section 3 C17')
add('C14', 'exploration', 'property-based testing on a virtual clock with deadline-directed event placement + exhaustive parameter grid',
    'A real endpoint runs on a virtual millisecond clock against a scripted peer; traffic, user calls and silence are placed at deadline-1ms/deadline/deadline+1ms of each timer, ACK delays drive the segment-size controller, and the timestamped octet log is checked against the negotiated parameters; the keepalive^2 x idle grid is enumerated.',
    'Virtual time (no wall clock); ACKs at least 1 ms after the segment when the controller is on; the closing clause is only judged when an idle time is configured.',
    'DESIGN.md section 3 C14')
add('C15', 'exploration', 'exhaustive decision-table enumeration + property-based testing over generated certificates, against an independent policy function',
    'The TLS negotiation table (96 cells) is enumerated completely and certificates with generated SAN multisets are presented through a scripted TLS socket; what the real endpoint does (SESS_INIT, established, SESS_TERM contact-failure, close, authn parameters) is compared with a policy function written from the property text.',
    'Real TLS handshakes and chain validation are out of scope (scripted socket, only Config.get_ssl_context() replaced); peers are reached by IP literal as tcpcl.agent.Agent.connect() does (no DNS-ID reference) or, in by_name cases, by a host name given to Agent.connect() and resolved by a stub resolver.',
    'DESIGN.md section 3 C15')
add('C18', 'exploration', 'model-based property testing with a marshalling model at the D-Bus boundary and a queue/idle reference model',
    'Every signal and method return of generated TCPCL (two real endpoints) and UDPCL histories passes through a model of dbus-python marshalling against the declared signature; queue queries, pops and the idle indication are compared with a reference model computed from the recorded event history at the moment of each query.  Stack histories drive the real bp/cla.py adaptors of three whole nodes (BP agent, TCPCL and UDPCL agents, virtual message bus, simulated network): every transfer that completed on the wire must reach the BP agent once with the sender octets, the receive queues must end empty, and every value crossing the bus must marshal.',
    'vlib/dbusmodel.py and the virtual bus (shims/dbus/bus.py) are models of the documented dbus-python behaviour, not the library.',
    'DESIGN.md section 3 C18')
add('C10', 'exploration', 'model-based property testing of receive histories against a seen-set / first-match routing reference model',
    'Generated routing tables and receive histories (repeats, look-alike identities, own-source bundles, multi-match destinations) are fed to a real BP agent; after every bundle the application deliveries, end-of-processing records and bundles handed to the convergence layer are compared with a reference model.  The agent runs with the application set of a deployment (admin, fragment, bpsec, sand, safe): nothing but the addressed application may consume a bundle.  Stack histories (three whole nodes: BP agent + real bp/cla.py adaptors + TCPCL / UDPCL agents over a virtual bus and simulated network, sessions cut and re-made) are judged from the octets on the wire: a received bundle is forwarded to its next hop at most once and delivered at most once, only at its destination.',
    'Patterns are anchored so match/search agree; fragments routed to deliver are judged by C06; Agent._finish_bundle is wrapped on the instance for observation.',
    'DESIGN.md section 3 C10')
add('C11', 'exploration', 'property-based testing of forwarding histories; wire-level differential with an independent RFC 9171 codec',
    'Histories of 1-3 generated bundles (any multiset of hop-by-hop and unknown blocks, CRC types, block numbering, creation time zero or past, clock advance) are forwarded by a real agent and the transmitted octets are compared with the received octets by an independent decoder (primary octet-identical, payload, previous node, hop counts +1, age, other blocks, numbering, CRCs).',
    'Virtual clock; bundles fit the MTU; process-wide scapy state is reset between cases so that a case is a pure function of its own history.',
    'DESIGN.md section 3 C11')
add('C08', 'fault_enumeration', 'exhaustive single-bit fault injection + property-based burst injection on received bundles; independent CRC recomputation on every emitted bundle',
    'Every single-bit flip inside every CRC-protected block of enumerated seed bundles, and generated bursts up to the CRC width, are fed to the real receive callback and must leave no trace (no delivery, no octets to the CL, seen-set unchanged, pristine copy still processed); every bundle the agent emits in originate/forward/fragment/report scenarios has its CRCs recomputed by a bit-serial reference over the wire octets.',
    'Bit-serial CRC reference; exceptions out of the receive callback count as dropped; exhaustive only for the enumerated seed bundles (24 quick / 400 thorough).',
    'DESIGN.md section 3 C08')
add('C05', 'exploration', 'property-based testing + boundary grid enumeration; wire-level oracle with an independent RFC 9171 codec and an independent feasibility computation',
    'Originated and forwarded bundles with payload lengths and MTUs placed on CBOR head-width boundaries are sent through the real transmit chain; everything handed to the convergence layer is parsed independently and checked for size, identity, exact tiling, block replication and CRCs; feasibility of fragmentation is computed with the independent encoder.',
    'A small band just above the minimum feasible MTU accepts either outcome (the agent sizes conservatively); with a BIB/BCB policy at the node the payload as it leaves the security step is what must be tiled.',
    'DESIGN.md section 3 C05')
add('C19', 'exploration', 'exhaustive enumeration of the flag x report-to x outcome table (672 cells) + property-based variation of bundle content and short histories',
    'For every combination of report-request flags, report-to value and routing outcome the reports handed to the convergence layer are parsed independently and compared with "requested and occurred", where occurrence is taken from the observed outcome.',
    'Administrative-record inputs are not generated; for the no-route outcome only the "only if" direction is judged; the fake convergence layer can be made to fail at hand-over for one next hop.',
    'DESIGN.md section 3 C19')
add('C06', 'exploration', 'exhaustive permutation enumeration for small fragment sets + property-based generation of fragmentations, duplicates and interleavings; interval-coverage reference model',
    'All arrival permutations (with a duplicate at every position) of enumerated fragmentations and generated larger ones (uneven, overlapping, nested, interleaved with a look-alike bundle, fragments from the independent encoder or from the repository own fragmentation) are delivered to a real agent; application deliveries are compared with an interval-coverage model after every arrival.  Stack cases: bundles originated at a whole node travel over two hops of real convergence layers (TCPCL / UDPCL, each hop with its own route MTU and the UDPCL agents with their own MTU, so the origin fragments and fragments are forwarded as they are) and must be delivered at the destination exactly once with the original payload and flags.',
    'Fragments of one bundle are cut from one payload and agree on the total length.',
    'DESIGN.md section 3 C06')
add('C03', 'fault_enumeration', 'differential testing against an independent COSE/AAD implementation under enumerated field-level alterations and exhaustive single-bit flips; property-based variation of bundles, scopes and algorithms',
    'Bundles signed by a real source agent (COSE_Mac0 through its transmit chain) or by an independent reference source (scopes and parameters the repository never emits) are altered field by field and bit by bit; a fresh real receiver must deliver exactly when the independent verifier (validated against the upstream interop vectors) still verifies, and otherwise record a deletion with a security reason.',
    'COSE_Mac0 (HMAC-256/384/512) and COSE_Sign1 (ES256/ES384, fixed test PKI, certificate as x5chain, real certvalidator at the receiver); the installed pycose cannot build wrapped-key MACs; the reference does not validate certificate chains (x5chain flips judged one-directionally, as all raw bit flips).',
    'DESIGN.md section 3 C03')
add('C12', 'fault_enumeration', 'exhaustive enumeration of security-block malformations x block kind x key store x acceptance (and all good/bad pairs) + property-based combinations; strict independent verdict',
    'Reference-built bundles whose BIB/BCB is malformed in exactly one of 19 ways (or valid in 3 ways), alone or next to a valid second security block in either order, are fed to a real destination agent; delivery, released payload, recorded deletion reason and the deletion report on the wire are compared with a strict independent verdict.',
    'Security blocks come from the reference source (COSE_Mac0 / COSE_Encrypt0, one or two targets in either order); bundles that do not decode at all are not judged.',
    'DESIGN.md section 3 C12')
add('C16', 'fault_enumeration', 'differential testing against an independent COSE decryptor under enumerated alterations and exhaustive ciphertext bit flips; property-based variation of plaintexts, modes, scopes and acceptance',
    'BCBs produced by a real source agent (Encrypt0 A128/A256GCM, Encrypt with A256KW) or by the reference source are checked on the wire (ciphertext differs from plaintext, independent decryption recovers it) and after every catalogue alteration / ciphertext bit flip against a fresh real receiver, which must deliver exactly when the independent decryptor still succeeds.',
    'AES-GCM/AES-KW primitives of the cryptography package are trusted; the policy IV list is sufficient, empty (documented as random) or used up by earlier bundles; payloads are plain or status reports in object form.',
    'DESIGN.md section 3 C16')
add('C13', 'exploration', 'model-based property testing over an in-memory datagram network with permutation/duplication/padding/concatenation of captured datagrams + exhaustive permutations of small segment sets; interval-coverage reference model',
    'Real UDPCL agents send generated bundles through the paced transmit path on a virtual clock; every datagram is parsed by an independent CBOR reader (size, tiling, content) and then delivered to a real receiver in generated and exhaustively permuted orders with repeats, padding and message concatenation; announcements are compared with a coverage model keyed by peer and transfer id.',
    'mtu >= 24 (every value up to 330 enumerated); up to three senders, two of them sharing one address; bundles are real RFC 9171 encodings; virtual clock inside udpcl.agent.',
    'DESIGN.md section 3 C13')
add('C20', 'exploration', 'property-based testing with an independent BTP-U parser (round-trip/differential) + exhaustive permutations of small segment sets through the real receive path',
    'Frames produced by the real segmentation code are parsed by an independent BTP-U parser (lengths, MTU bound, numbering, content) and re-encoded by the repository codec; they are then delivered to the real receive routine in generated and exhaustively permuted orders, interleaved with another transfer; reference-encoded frames with hints, padding and several messages are round-tripped through the repository codec.',
    'Bundles have at least one octet; the virtual clock is not advanced between segments.',
    'DESIGN.md section 3 C20')
