add('C02', 'exploration', 'property-based testing (Hypothesis): round-trip + differential against an independent RFC 9171 codec',
    'Generated bundles (field values on CBOR head boundaries, all block kinds, status reports) are round-tripped through '
    'the repo codec in both directions and every encoding is judged by an independent byte-level RFC 9171 decoder; '
    'exploration is the right level because the value space is unbounded and the oracle is exact per case.',
    'Trusts vlib/ref9171.py + cborpull.py (written from the RFCs), Hypothesis, cbor2/scapy as installed; EIDs limited to the RFC 9171 dtn/ipn grammar.',
    'DESIGN.md section 3 C02')
