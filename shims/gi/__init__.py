''' Stand-in for PyGObject's ``gi`` package (only what dtn-demo-agent uses).
Part of the /verif trusted base, see DESIGN.md section 2.1. '''


def require_version(*_a, **_k):
    return None
