''' Virtual-time, schedule-controlled stand-in for ``gi.repository.GLib``.

Every function delegates to the *current* context of ``vlib.simloop`` so the
harness owns time and the order of dispatch (DESIGN.md section 2.1).
'''
from vlib import simloop as _sl

IO_IN = 1
IO_OUT = 4
IO_PRI = 2
IO_ERR = 8
IO_HUP = 16
PRIORITY_DEFAULT = 0
PRIORITY_DEFAULT_IDLE = 200
PRIORITY_HIGH = -100
PRIORITY_LOW = 300


def io_add_watch(chan, cond, cb, *args):
    return _sl.current().io_add_watch(chan, cond, cb, *args)


def idle_add(cb, *args):
    return _sl.current().idle_add(cb, *args)


def timeout_add(ms, cb, *args):
    return _sl.current().timeout_add(ms, cb, *args)


def timeout_add_seconds(sec, cb, *args):
    return _sl.current().timeout_add(int(sec) * 1000, cb, *args)


def source_remove(sid):
    return _sl.source_remove(sid)


class MainLoop(object):
    ''' Only quit() is meaningful: run() is never used by the harness. '''

    def __init__(self, *_a, **_k):
        self.quit_called = False

    def run(self):
        raise RuntimeError('MainLoop.run() is not available under the virtual loop')

    def quit(self):
        self.quit_called = True
