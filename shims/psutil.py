''' Import-only stub (btpu.agent.address_from_if is replaced by the harness). '''
AF_LINK = 17


def net_if_addrs():
    return {}
