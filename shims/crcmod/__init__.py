''' Table-driven stand-in for crcmod (only predefined x-25 and crc-32c).
Validated at start-up against vlib.refcrc (bit-serial, independent code). '''
from . import predefined  # noqa: F401
