_DEFS = {
    # name: (width, reflected polynomial, init, xorout)
    'x-25': (16, 0x8408, 0xFFFF, 0xFFFF),
    'crc-32c': (32, 0x82F63B78, 0xFFFFFFFF, 0xFFFFFFFF),
}


def _table(poly):
    tab = []
    for byte in range(256):
        reg = byte
        for _ in range(8):
            reg = (reg >> 1) ^ poly if reg & 1 else reg >> 1
        tab.append(reg)
    return tab


def mkPredefinedCrcFun(name):
    width, poly, init, xorout = _DEFS[name.lower()]
    tab = _table(poly)

    def crcfun(data, crc=None):
        reg = init if crc is None else (crc ^ xorout)
        for byte in bytes(data):
            reg = tab[(reg ^ byte) & 0xFF] ^ (reg >> 8)
        return reg ^ xorout

    return crcfun


mkCrcFun = mkPredefinedCrcFun
