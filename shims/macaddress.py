''' Minimal macaddress: HWAddress / EUI48 (parse, bytes, str, eq, hash). '''


class HWAddress(object):
    size = 48

    def __init__(self, address):
        nbytes = self.size // 8
        if isinstance(address, HWAddress):
            raw = bytes(address)
        elif isinstance(address, (bytes, bytearray)):
            raw = bytes(address)
        elif isinstance(address, int):
            raw = address.to_bytes(nbytes, 'big')
        elif isinstance(address, str):
            text = address.replace('-', '').replace(':', '').replace('.', '')
            raw = bytes.fromhex(text)
        else:
            raise TypeError('cannot make hardware address from %r' % (address,))
        if len(raw) != nbytes:
            raise ValueError('wrong size for hardware address: %r' % (address,))
        self._raw = raw

    def __bytes__(self):
        return self._raw

    def __int__(self):
        return int.from_bytes(self._raw, 'big')

    def __str__(self):
        return '-'.join('%02X' % b for b in self._raw)

    def __repr__(self):
        return '%s(%r)' % (type(self).__name__, str(self))

    def __eq__(self, other):
        return isinstance(other, HWAddress) and self._raw == other._raw

    def __hash__(self):
        return hash(self._raw)


class EUI48(HWAddress):
    size = 48


MAC = EUI48
