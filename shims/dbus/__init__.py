''' Recording, type-checking stand-in for dbus-python (DESIGN.md section 2.3).
Only the surface dtn-demo-agent uses.  Part of the /verif trusted base. '''
from ._types import (String, ObjectPath, Signature, ByteArray, Boolean, Byte, Int16, UInt16,  # noqa: F401
                     Int32, UInt32, Int64, UInt64, Double, Array, Dictionary, Struct)
from .exceptions import DBusException  # noqa: F401
from . import exceptions, bus, service  # noqa: F401
from .bus import BusConnection  # noqa: F401
from ._record import RECORDER  # noqa: F401


class Interface(object):
    def __init__(self, obj, dbus_interface):
        self._obj = obj
        self.dbus_interface = dbus_interface

    def connect_to_signal(self, name, handler, **kwargs):
        kwargs.setdefault('dbus_interface', self.dbus_interface)
        return self._obj.connect_to_signal(name, handler, **kwargs)

    def __getattr__(self, name):
        return getattr(self._obj, name)


def SessionBus(*_a, **_k):
    return bus.BusConnection(bus.BUS_SESSION)


def SystemBus(*_a, **_k):
    return bus.BusConnection(bus.BUS_SYSTEM)
