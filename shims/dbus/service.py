''' dbus.service stand-in: Object / BusName / method / signal.

signal: like dbus-python's decorator, the body runs first, then - only if the
object is still exported (has locations) - the arguments are appended to a
message against the declared signature; a value that does not marshal raises
at the emission site.  Every emission is recorded in dbus.RECORDER.
method: the function itself is returned (direct Python calls bypass D-Bus, as
in dbus-python); the declared signatures are kept on the function so that
vlib.dbuscall can marshal arguments and the return value the way a bus call
would.
'''
import functools
from ._record import RECORDER
from .exceptions import DBusException  # noqa: F401
from vlib import dbusmodel


class BusName(object):
    def __init__(self, name, bus=None, allow_replacement=False, replace_existing=False, do_not_queue=False):
        from .bus import VBUS
        self._name = name
        self._bus = bus
        if bus is not None and hasattr(bus, 'objects'):
            VBUS.own(name, bus)

    def get_name(self):
        return self._name

    def get_bus(self):
        return self._bus


class Object(object):
    def __init__(self, conn=None, object_path=None, bus_name=None):
        self._locations = []
        self._object_path = object_path
        self._connection = conn
        if conn is not None and object_path is not None:
            self._locations.append((conn, object_path, False))
            self._vbus_register(conn, object_path)

    def _vbus_register(self, conn, path):
        from vlib import simloop
        if hasattr(conn, 'objects'):
            other = conn.objects.get(path)
            if other is not None and other is not self:
                # dbus-python (libdbus dbus_connection_register_object_path): a path can have one handler per connection
                raise KeyError("Can't register the object-path handler for %r: there is already a handler" % (path,))
            conn.objects[path] = self
        # the process (main-loop context) that exported the object handles calls to it
        self._vbus_ctx = simloop.current()

    @property
    def locations(self):
        return iter(self._locations)

    @property
    def __dbus_object_path__(self):
        return self._object_path

    def remove_from_connection(self, connection=None, path=None):
        if not self._locations:
            raise LookupError('%r is not exported' % self)
        for conn, opath, _f in self._locations:
            if hasattr(conn, 'objects') and conn.objects.get(opath) is self:
                del conn.objects[opath]
        self._locations = []

    def add_to_connection(self, connection, path):
        self._locations.append((connection, path, False))
        self._vbus_register(connection, path)


def method(dbus_interface, in_signature=None, out_signature=None, **_kw):
    def decorator(func):
        func._dbus_is_method = True
        func._dbus_interface = dbus_interface
        func._dbus_in_signature = in_signature
        func._dbus_out_signature = out_signature
        return func
    return decorator


def signal(dbus_interface, signature=None, **_kw):
    def decorator(func):
        member = func.__name__

        @functools.wraps(func)
        def emit_signal(self, *args, **kwargs):
            func(self, *args, **kwargs)
            locations = list(self.locations)
            error = None
            if locations and signature is not None:
                try:
                    dbusmodel.check(signature, args)
                except (TypeError, ValueError, OverflowError) as err:
                    error = err
            RECORDER.add(kind='signal', obj=self, path=getattr(self, '_object_path', None),
                         iface=dbus_interface, member=member, signature=signature,
                         args=args, exported=bool(locations),
                         error=(None if error is None else '%s: %s' % (type(error).__name__, error)))
            if error is not None:
                raise error
            if locations:
                from .bus import VBUS
                for conn, opath, _f in locations:
                    VBUS.emit(conn, opath, dbus_interface, member, dbusmodel.convert(signature, args) if signature is not None else list(args))

        emit_signal._dbus_is_signal = True
        emit_signal._dbus_interface = dbus_interface
        emit_signal._dbus_signature = signature
        return emit_signal
    return decorator
