BUS_SESSION = 0
BUS_SYSTEM = 1
BUS_STARTER = 2


class _Proxy(object):
    def __init__(self, conn, service, path):
        self._conn = conn
        self._service = service
        self._path = path
        self.signal_handlers = []

    def connect_to_signal(self, name, handler, **kwargs):
        self.signal_handlers.append((name, handler, kwargs))
        return None

    def NameHasOwner(self, _name):
        return False

    def __getattr__(self, name):
        if name.startswith('_'):
            raise AttributeError(name)

        def call(*_a, **_k):
            raise RuntimeError('no remote D-Bus objects in the virtual bus (%s.%s)' % (self._path, name))
        return call


class BusConnection(object):
    def __init__(self, address_or_type=BUS_SESSION, mainloop=None):
        self.address_or_type = address_or_type
        self.objects = {}

    def get_object(self, service, path, **_k):
        return _Proxy(self, service, path)

    def close(self):
        pass
