''' Virtual message bus.

Every BusConnection stands for one process.  A process owns well-known names
(dbus.service.BusName) and exports objects (dbus.service.Object).  A proxy
obtained with get_object(name, path) calls the exported method of whichever
connection owns the name *now*:

* the arguments are marshalled against the method's declared in_signature and
  arrive as dbus types, the return value is marshalled against out_signature
  and arrives as dbus types (byte arrays as Array of Byte), as with
  dbus-python's default proxies;
* the method body runs inside the main-loop context of the process that
  exported the object (the caller blocks, as for a synchronous call);
* an exception in the method, a missing object / method or an unowned name
  arrive at the caller as DBusException.

A signal emitted by an exported object is queued, in emission order, to every
matching connect_to_signal() subscription and handled by a default-priority
source of the subscriber's main-loop context (never inside the emitter).

The bus name 'org.freedesktop.DBus' answers NameHasOwner and emits
NameOwnerChanged.  With nothing registered (the single-agent worlds) a proxy
call fails as "name has no owner", which is what they rely on.
'''
from .exceptions import DBusException
from ._record import RECORDER

BUS_SESSION = 0
BUS_SYSTEM = 1
BUS_STARTER = 2
DAEMON = 'org.freedesktop.DBus'


class VirtualBus(object):
    def __init__(self):
        self.reset()

    def reset(self):
        self.names = {}           # well-known name -> BusConnection
        self.subscriptions = []   # _Subscription
        self.calls = []           # log of proxy calls: dict(service, path, member, args, error)
        self.call_depth = 0

    def own(self, name, conn):
        old = self.names.get(name)
        if old is conn:
            return
        if old is not None:
            raise DBusException('name %s already owned' % name, name='org.freedesktop.DBus.Error.NameExists')
        self.names[name] = conn
        self.emit(None, '/org/freedesktop/DBus', DAEMON, 'NameOwnerChanged', [name, '', conn.unique_name], DAEMON)

    def release(self, name):
        conn = self.names.pop(name, None)
        if conn is not None:
            self.emit(None, '/org/freedesktop/DBus', DAEMON, 'NameOwnerChanged', [name, conn.unique_name, ''], DAEMON)

    def emit(self, conn, path, iface, member, args, service=None):
        ''' Route a signal from ``conn`` (None for the daemon) to its subscribers. '''
        from vlib import simloop
        for sub in list(self.subscriptions):
            if not sub.active or sub.member != member or sub.path != path:
                continue
            if sub.iface is not None and sub.iface != iface:
                continue
            if service is None:
                if self.names.get(sub.service) is not conn:
                    continue
            elif sub.service != service:
                continue
            sub.ctx._add(simloop.Source('dbus-signal', simloop.PRIO_DEFAULT, _deliver, (sub, list(args))))


class _Subscription(object):
    def __init__(self, service, path, iface, member, handler, ctx):
        self.service, self.path, self.iface, self.member, self.handler, self.ctx = service, path, iface, member, handler, ctx
        self.active = True

    def remove(self):
        self.active = False
        if self in VBUS.subscriptions:
            VBUS.subscriptions.remove(self)


def _deliver(sub, args):
    if sub.active:
        sub.handler(*args)
    return False


VBUS = VirtualBus()
_counter = [0]


class _Proxy(object):
    def __init__(self, conn, service, path):
        self._conn = conn
        self._service = service
        self._path = path
        self.signal_handlers = []

    def connect_to_signal(self, name, handler, dbus_interface=None, **kwargs):
        from vlib import simloop
        self.signal_handlers.append((name, handler, dict(kwargs, dbus_interface=dbus_interface)))
        sub = _Subscription(self._service, self._path, dbus_interface, name, handler, simloop.current())
        VBUS.subscriptions.append(sub)
        return sub

    def __getattr__(self, name):
        if name.startswith('_'):
            raise AttributeError(name)

        def call(*args, **_kw):
            return self._call(name, args)
        return call

    def _call(self, member, args):
        from vlib import dbusmodel, simloop
        if self._service == DAEMON:
            if member == 'NameHasOwner':
                return bool(args[0] in VBUS.names)
            raise DBusException('daemon method %s is not modelled' % member, name='org.freedesktop.DBus.Error.UnknownMethod')
        entry = dict(service=self._service, path=self._path, member=member, args=args, error=None)
        VBUS.calls.append(entry)

        def fail(err_name, text):
            entry['error'] = err_name
            return DBusException(text, name=err_name)
        owner = VBUS.names.get(self._service)
        if owner is None:
            raise fail('org.freedesktop.DBus.Error.ServiceUnknown', 'The name %s was not provided by any .service files' % self._service)
        obj = owner.objects.get(self._path)
        if obj is None or not list(obj.locations):
            raise fail('org.freedesktop.DBus.Error.UnknownObject', 'No such object path %r' % self._path)
        meth = getattr(obj, member, None)
        if meth is None or not getattr(meth, '_dbus_is_method', False):
            raise fail('org.freedesktop.DBus.Error.UnknownMethod', 'Method "%s" on %s does not exist' % (member, self._path))
        in_sig = meth._dbus_in_signature
        if in_sig is not None:
            # the caller's library refuses values that do not fit the introspected signature (TypeError etc. at the caller)
            args = dbusmodel.convert(in_sig, args)
        ctx = getattr(obj, '_vbus_ctx', None) or simloop.current()
        VBUS.call_depth += 1
        try:
            with simloop.entered(ctx):
                try:
                    ret = meth(*args)
                except DBusException as err:
                    entry['error'] = err.get_dbus_name() or 'DBusException'
                    raise
                except Exception as err:
                    # dbus.service turns it into an error reply named after the exception class
                    raise fail('org.freedesktop.DBus.Python.%s.%s' % (type(err).__module__, type(err).__name__),
                               '%s: %s' % (type(err).__name__, err))
        finally:
            VBUS.call_depth -= 1
        out_sig = meth._dbus_out_signature
        error = None
        value = ret
        if out_sig:
            parts = dbusmodel.split_signature(out_sig)
            try:
                if len(parts) == 1:
                    value = dbusmodel.convert_one(parts[0], ret)
                else:
                    value = tuple(dbusmodel.convert(out_sig, ret))
            except (TypeError, ValueError, OverflowError) as err:
                error = '%s: %s' % (type(err).__name__, err)
        else:
            value = None
        RECORDER.add(kind='return', obj=obj, path=self._path, member=member, args=tuple(args), signature=out_sig,
                     value=ret, error=error, via='bus')
        if error is not None:
            # the reply cannot be built: the caller gets an error reply
            raise fail('org.freedesktop.DBus.Python.TypeError', error)
        return value


class BusConnection(object):
    def __init__(self, address_or_type=BUS_SESSION, mainloop=None):
        self.address_or_type = address_or_type
        self.objects = {}
        _counter[0] += 1
        self.unique_name = ':1.%d' % _counter[0]

    def get_object(self, service, path, **_k):
        return _Proxy(self, service, path)

    def get_unique_name(self):
        return self.unique_name

    def close(self):
        pass
