class DBusException(Exception):
    def __init__(self, *args, **kwargs):
        name = kwargs.pop('name', None)
        if name is not None or getattr(self, '_dbus_error_name', None) is None:
            self._dbus_error_name = name
        Exception.__init__(self, *args)

    def get_dbus_name(self):
        return self._dbus_error_name

    def get_dbus_message(self):
        return str(self)


class MissingReplyHandlerException(DBusException):
    pass


class UnknownMethodException(DBusException):
    pass


class NameExistsException(DBusException):
    pass
