def DBusGMainLoop(set_as_default=False):
    return object()
