''' Global log of everything crossing the simulated D-Bus boundary. '''


class Recorder(object):
    def __init__(self):
        self.events = []
        self.seq = 0
        self.listeners = []

    def reset(self):
        self.events = []
        self.seq = 0
        self.listeners = []
        from .bus import VBUS
        VBUS.reset()

    def add(self, **ev):
        from vlib import simloop
        self.seq += 1
        ev['seq'] = self.seq
        ev['t_ms'] = simloop.CLOCK.now_ms
        self.events.append(ev)
        for fn in list(self.listeners):
            fn(ev)
        return ev

    def signals(self, member=None, path=None):
        return [e for e in self.events
                if e['kind'] == 'signal'
                and (member is None or e['member'] == member)
                and (path is None or e['path'] == path)]


RECORDER = Recorder()
