class String(str):
    pass


class ObjectPath(str):
    pass


class Signature(str):
    pass


class ByteArray(bytes):
    pass


class Boolean(int):
    pass


class Byte(int):
    pass


class Int16(int):
    pass


class UInt16(int):
    pass


class Int32(int):
    pass


class UInt32(int):
    pass


class Int64(int):
    pass


class UInt64(int):
    pass


class Double(float):
    pass


class Array(list):
    def __init__(self, iterable=(), signature=None, variant_level=0):
        list.__init__(self, iterable)
        self.signature = signature


class Dictionary(dict):
    def __init__(self, mapping_or_iterable=(), signature=None, variant_level=0):
        dict.__init__(self, mapping_or_iterable)
        self.signature = signature


class Struct(tuple):
    pass
