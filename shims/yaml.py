''' Minimal stand-in for PyYAML: documents in JSON form only.

YAML 1.2 is a superset of JSON, so a configuration file written in JSON flow
style is a valid YAML document; that subset is all the harness writes, and all
this module reads (anything else raises).  This lets the checks build their
configurations through the repository's own Config.from_file(), as a
deployment does. '''
import json


class YAMLError(Exception):
    pass


def safe_load(stream):
    text = stream.read() if hasattr(stream, 'read') else stream
    if isinstance(text, bytes):
        text = text.decode('utf-8')
    if not text.strip():
        return None
    try:
        return json.loads(text)
    except ValueError as err:
        raise YAMLError('only JSON-form YAML documents are supported by the verification stand-in: %s' % err)


def safe_dump(data, stream=None, **_k):
    text = json.dumps(data)
    if stream is not None:
        stream.write(text)
        return None
    return text
