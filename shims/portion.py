''' Integer interval sets: the subset of the ``portion`` API dtn-demo-agent
uses.  Intervals are immutable, hashable, normalised lists of half-open
integer ranges; adjacent ranges merge (as closed-open real intervals with
integer bounds do in portion, and as discrete closed intervals do).
Self-tested at start-up against a brute-force set model (vlib.boot). '''


class _Atomic(object):
    __slots__ = ('lower', 'upper')

    def __init__(self, lower, upper):
        self.lower = lower
        self.upper = upper

    def __repr__(self):
        return '_Atomic(%r,%r)' % (self.lower, self.upper)


class Interval(object):
    ''' Closed-open rendering: atomic [lower, upper). '''
    _discrete_closed = False

    def __init__(self, ranges=()):
        self._r = self._norm(ranges)

    @staticmethod
    def _norm(ranges):
        items = sorted((int(lo), int(hi)) for (lo, hi) in ranges if hi > lo)
        out = []
        for lo, hi in items:
            if out and lo <= out[-1][1]:
                if hi > out[-1][1]:
                    out[-1] = (out[-1][0], hi)
            else:
                out.append((lo, hi))
        return tuple(out)

    def _make(self, ranges):
        return type(self)(ranges)

    @property
    def empty(self):
        return not self._r

    @property
    def atomic(self):
        return len(self._r) <= 1

    @property
    def lower(self):
        if not self._r:
            raise ValueError('empty interval')
        return self._r[0][0]

    @property
    def upper(self):
        if not self._r:
            raise ValueError('empty interval')
        hi = self._r[-1][1]
        return hi - 1 if self._discrete_closed else hi

    def __or__(self, other):
        if not isinstance(other, Interval):
            return NotImplemented
        return self._make(self._r + other._r)

    union = __or__

    def __and__(self, other):
        if not isinstance(other, Interval):
            return NotImplemented
        out = []
        for (alo, ahi) in self._r:
            for (blo, bhi) in other._r:
                lo, hi = max(alo, blo), min(ahi, bhi)
                if hi > lo:
                    out.append((lo, hi))
        return self._make(out)

    def __sub__(self, other):
        if not isinstance(other, Interval):
            return NotImplemented
        out = []
        for (alo, ahi) in self._r:
            cur = alo
            for (blo, bhi) in other._r:
                if bhi <= cur or blo >= ahi:
                    continue
                if blo > cur:
                    out.append((cur, blo))
                cur = max(cur, bhi)
            if cur < ahi:
                out.append((cur, ahi))
        return self._make(out)

    def __eq__(self, other):
        if not isinstance(other, Interval):
            return NotImplemented
        return self._r == other._r

    def __ne__(self, other):
        res = self.__eq__(other)
        return res if res is NotImplemented else not res

    def __hash__(self):
        return hash(self._r)

    def __contains__(self, item):
        if isinstance(item, Interval):
            return (item - self).empty
        return any(lo <= item < hi for (lo, hi) in self._r)

    def __iter__(self):
        for lo, hi in self._r:
            yield self._make([(lo, hi)])

    def __len__(self):
        return len(self._r)

    def __bool__(self):
        return True

    def __repr__(self):
        if not self._r:
            return '()'
        if self._discrete_closed:
            return ' | '.join('[%d,%d]' % (lo, hi - 1) for lo, hi in self._r)
        return ' | '.join('[%d,%d)' % (lo, hi) for lo, hi in self._r)


class AbstractDiscreteInterval(Interval):
    ''' Discrete rendering: atomic [lower, upper] with integer step. '''
    _step = 1
    _discrete_closed = True


def closedopen(lower, upper):
    return Interval([(lower, upper)])


def closed(lower, upper):
    return Interval([(lower, upper + 1)])


def singleton(value):
    return Interval([(value, value + 1)])


def empty():
    return Interval()


def iterate(interval, step=1, **_k):
    for lo, hi in interval._r:
        cur = lo
        while cur < hi:
            yield cur
            cur += step


class _Api(object):
    def __init__(self, cls):
        self._cls = cls

    def empty(self):
        return self._cls()

    def singleton(self, value):
        return self._cls([(value, value + 1)])

    def closed(self, lower, upper):
        return self._cls([(lower, upper + 1)])

    def closedopen(self, lower, upper):
        return self._cls([(lower, upper)])

    def iterate(self, interval, step=1, **_k):
        return iterate(interval, step)


def create_api(cls, **_k):
    return _Api(cls)
