#!/venv/bin/python
''' Runner: ``run.py Cxx --tier quick|thorough [--replay file] [--seed N]``.

exit 0: property held on everything explored (known findings are listed as
        KNOWN-FINDING lines); exit 1: ``VIOLATION property=<id> replay=<path>``;
exit 2: the verification machinery itself failed (never a verdict).
'''
import os
import sys

HERE = os.path.dirname(os.path.abspath(__file__))


def main():
    if len(sys.argv) < 2:
        sys.stderr.write(__doc__)
        return 2
    # deterministic, side-effect free interpreter settings: re-exec once if needed
    want = {'PYTHONHASHSEED': '0', 'PYTHONDONTWRITEBYTECODE': '1'}
    if any(os.environ.get(k) != v for k, v in want.items()):
        env = dict(os.environ)
        env.update(want)
        os.execve(sys.executable, [sys.executable] + sys.argv, env)
    os.chdir(HERE)
    sys.path.insert(0, HERE)
    try:
        import hypothesis  # noqa: F401  (part of the image; fall back to the offline wheelhouse if it is not)
    except ImportError:
        import subprocess
        deps = os.path.join(HERE, '.deps')
        subprocess.call([sys.executable, '-m', 'pip', 'install', '-q', '--no-index', '--find-links', '/opt/veriftools/wheels',
                         '--target', deps, 'hypothesis'])
        sys.path.insert(1, deps)
        os.environ['PYTHONPATH'] = deps + os.pathsep + os.environ.get('PYTHONPATH', '')
    from vlib import boot
    try:
        boot.base()
        from vlib import refcrc
        refcrc.selftest()
        boot.selftest_shims()
    except Exception as err:
        sys.stderr.write('HARNESS-ERROR boot: %s: %s\n' % (type(err).__name__, err))
        return 2
    from vlib import engine
    prop = sys.argv[1]
    return engine.main('checks.%s' % prop, sys.argv[2:])


if __name__ == '__main__':
    sys.exit(main())
